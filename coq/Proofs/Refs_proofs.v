(* C17, reference accounting.  Holders of a request object are the entries of client duplicate caches, client reply
   queues and server slots (refs).  `safe st e`: for every object, the holders plus the references e held by the
   code that is running are covered by the object's counter -- so nothing that is still held has been released
   (no dangling holder, no double release).  Every operation of the model preserves it, consuming or producing
   the caller's references exactly as the C code's ownership comments say. *)
From RSP Require Import Base Consts Ttl Crypt Packet Rewrite Choose Proxy Slots_proofs Dup_proofs Keeps_proofs.
From Coq Require Import ZifyBool ZifyNat ZifyN.
Local Open Scope N_scope.

Definition rcount (st : state) (h : nat) : N := match get_rq st h with Some r => rq_refcount r | None => 0 end.
Definition ind (h h0 : nat) : N := if Nat.eqb h h0 then 1 else 0.
Definition add1 (e : nat -> N) (h0 : nat) : nat -> N := fun h => e h + ind h h0.
Definition zero : nat -> N := fun _ => 0.

Definition safe (st : state) (e : nat -> N) : Prop := forall h, refs st h + e h <= rcount st h.

Lemma ind_same h : ind h h = 1.  Proof. unfold ind. rewrite Nat.eqb_refl. reflexivity. Qed.
Lemma ind_diff h h0 : h <> h0 -> ind h h0 = 0.
Proof. intro H. unfold ind. destruct (Nat.eqb_spec h h0); [contradiction | reflexivity]. Qed.
Lemma ind_cases h h0 : (h = h0 /\ ind h h0 = 1) \/ (h <> h0 /\ ind h h0 = 0).
Proof. unfold ind. destruct (Nat.eqb_spec h h0); [left | right]; split; auto. Qed.

Lemma safe_weaken st e e' : (forall h, e' h <= e h) -> safe st e -> safe st e'.
Proof. intros H S h. specialize (H h). specialize (S h). lia. Qed.

Lemma safe_drop st e h0 : safe st (add1 e h0) -> safe st e.
Proof. apply safe_weaken. intro h. unfold add1. lia. Qed.

(* a reference held by the running code means the object is alive *)
Lemma safe_live st e h0 : safe st (add1 e h0) -> exists r, get_rq st h0 = Some r /\ 1 <= rq_refcount r.
Proof.
  intro S. specialize (S h0). unfold add1 in S. rewrite ind_same in S. unfold rcount in S.
  destruct (get_rq st h0) as [r|]; [exists r; split; [reflexivity | lia] | lia].
Qed.

(* ---- counting under list update ---- *)
Definition oind (o : option nat) (h : nat) : N := match o with Some h' => ind h' h | None => 0 end.

Lemma occ_opt_cons h o l : occ_opt h (o :: l) = oind o h + occ_opt h l.
Proof.
  unfold occ_opt, oind, ind. cbn [filter]. destruct o as [h'|]; [|lia].
  destruct (Nat.eqb h' h); cbn [length]; lia.
Qed.

Lemma occ_opt_nil h : occ_opt h [] = 0.  Proof. reflexivity. Qed.

Lemma occ_opt_upd h : forall l i x, (i < length l)%nat ->
  occ_opt h (upd l i x) + oind (nth i l None) h = occ_opt h l + oind x h.
Proof.
  unfold upd. induction l as [|o l IH]; intros i x Hi; [cbn [length] in Hi; lia|].
  destruct i as [|i]; cbn [set_nth nth]; rewrite !occ_opt_cons.
  - lia.
  - cbn [length] in Hi. specialize (IH i x ltac:(lia)). lia.
Qed.

Lemma upd_out {A} (l : list A) i x : (length l <= i)%nat -> upd l i x = l.
Proof.
  unfold upd. revert i. induction l as [|y l IH]; intros i Hi; [reflexivity|].
  destruct i as [|i]; [cbn [length] in Hi; lia|]. cbn [set_nth]. f_equal. apply IH. cbn [length] in Hi. lia.
Qed.

Lemma nth_out_none (l : list (option nat)) i : (length l <= i)%nat -> nth i l None = None.
Proof. intro H. apply nth_overflow. exact H. Qed.

(* clearing or filling a cache entry / slot, in or out of range *)
Lemma occ_opt_upd_le h l i x : occ_opt h (upd l i x) + oind (nth i l None) h <= occ_opt h l + oind x h.
Proof.
  destruct (Nat.lt_ge_cases i (length l)) as [Hi|Hi].
  - rewrite (occ_opt_upd h l i x Hi). lia.
  - rewrite (upd_out l i x Hi), (nth_out_none l i Hi). cbn [oind]. lia.
Qed.

Lemma occ_app h l x : occ h (l ++ [x]) = occ h l + ind x h.
Proof.
  unfold occ, ind. rewrite filter_app, app_length. cbn [filter]. rewrite (Nat.eqb_sym h x).
  destruct (Nat.eqb x h); cbn [length]; lia.
Qed.

(* ---- sums over the client / server tables ---- *)
Lemma sumN_upd {A} (f : A -> N) (d : A) : forall (l : list A) i x, (i < length l)%nat ->
  sumN (map f (upd l i x)) + f (nth i l d) = sumN (map f l) + f x.
Proof.
  unfold upd. induction l as [|y l IH]; intros i x Hi; [cbn [length] in Hi; lia|].
  destruct i as [|i]; cbn [set_nth nth map sumN fold_right].
  - unfold sumN. lia.
  - cbn [length] in Hi. specialize (IH i x ltac:(lia)). unfold sumN in *. lia.
Qed.

Definition cf (h : nat) (cl : client) : N := occ_opt h (c_rqs cl) + occ h (c_replyq cl).
Definition sf (h : nat) (sv : server) : N := occ_opt h (map sl_rq (s_slots sv)).
Lemma refs_eq st h : refs st h = sumN (map (cf h) (st_clients st)) + sumN (map (sf h) (st_servers st)).
Proof. reflexivity. Qed.

Lemma cf_default h : cf h (mkClient [] []) = 0.  Proof. reflexivity. Qed.
Lemma sf_default h : sf h dummy_server = 0.  Proof. reflexivity. Qed.

Lemma refs_set_client st c cl' h :
  (c < length (st_clients st))%nat -> refs (set_client st c cl') h + cf h (get_client st c) = refs st h + cf h cl'.
Proof.
  intro Hc. rewrite !refs_eq. unfold set_client, get_client. cbn [st_clients st_servers].
  pose proof (sumN_upd (cf h) (mkClient [] []) (st_clients st) c cl' Hc). lia.
Qed.

Lemma refs_set_server st s sv' h :
  (s < length (st_servers st))%nat -> refs (set_server st s sv') h + sf h (get_server st s) = refs st h + sf h sv'.
Proof.
  intro Hs. rewrite !refs_eq. unfold set_server, get_server. cbn [st_clients st_servers].
  pose proof (sumN_upd (sf h) dummy_server (st_servers st) s sv' Hs). lia.
Qed.

Lemma set_client_out st c cl' : (length (st_clients st) <= c)%nat -> set_client st c cl' = st.
Proof. intro H. unfold set_client. rewrite (upd_out _ _ _ H). destruct st; reflexivity. Qed.
Lemma set_server_out st s sv' : (length (st_servers st) <= s)%nat -> set_server st s sv' = st.
Proof. intro H. unfold set_server. rewrite (upd_out _ _ _ H). destruct st; reflexivity. Qed.
Lemma get_client_out st c : (length (st_clients st) <= c)%nat -> get_client st c = mkClient [] [].
Proof. intro H. unfold get_client. apply nth_overflow. exact H. Qed.
Lemma get_server_out st s : (length (st_servers st) <= s)%nat -> get_server st s = dummy_server.
Proof. intro H. unfold get_server. apply nth_overflow. exact H. Qed.

Lemma rcount_set_client st c x h : rcount (set_client st c x) h = rcount st h.  Proof. reflexivity. Qed.
Lemma rcount_set_server st s x h : rcount (set_server st s x) h = rcount st h.  Proof. reflexivity. Qed.

(* replacing a client record: what the new record holds plus what the code holds afterwards must be covered by
   what the old record held plus what the code held before *)
Lemma safe_set_client st c cl' e e' :
  (forall h, cf h cl' + e' h <= cf h (get_client st c) + e h) -> safe st e -> safe (set_client st c cl') e'.
Proof.
  intros H S h. specialize (H h). specialize (S h). rewrite rcount_set_client.
  destruct (Nat.lt_ge_cases c (length (st_clients st))) as [Hc|Hc].
  - pose proof (refs_set_client st c cl' h Hc). lia.
  - rewrite (set_client_out st c cl' Hc). rewrite (get_client_out st c Hc), cf_default in H. lia.
Qed.

Lemma safe_set_server st s sv' e e' :
  (forall h, sf h sv' + e' h <= sf h (get_server st s) + e h) -> safe st e -> safe (set_server st s sv') e'.
Proof.
  intros H S h. specialize (H h). specialize (S h). rewrite rcount_set_server.
  destruct (Nat.lt_ge_cases s (length (st_servers st))) as [Hs|Hs].
  - pose proof (refs_set_server st s sv' h Hs). lia.
  - rewrite (set_server_out st s sv' Hs). rewrite (get_server_out st s Hs), sf_default in H. lia.
Qed.

(* ---- the heap ---- *)
Lemma refs_set_rq st h0 r h : refs (set_rq st h0 r) h = refs st h.  Proof. reflexivity. Qed.
Lemma refs_del_rq st h0 h : refs (del_rq st h0) h = refs st h.  Proof. reflexivity. Qed.

Lemma get_rq_set_rq_cases st h0 r' h : get_rq (set_rq st h0 r') h = get_rq st h \/ (h = h0 /\ get_rq (set_rq st h0 r') h = Some r').
Proof.
  unfold get_rq, set_rq, upd. cbn [st_heap].
  destruct (nth_error_set_nth_cases (st_heap st) h0 (Some r') h) as [E | [-> E]]; rewrite E; [left; reflexivity | right; split; reflexivity].
Qed.

Lemma nth_error_set_nth_other {A} (l : list A) i x j : j <> i -> nth_error (set_nth l i x) j = nth_error l j.
Proof. intro H. destruct (nth_error_set_nth_cases l i x j) as [E | [E _]]; [exact E | contradiction]. Qed.

Lemma rcount_set_rq st h0 r r' h : get_rq st h0 = Some r ->
  rcount (set_rq st h0 r') h = if Nat.eqb h h0 then rq_refcount r' else rcount st h.
Proof.
  intro G. unfold rcount. destruct (Nat.eqb_spec h h0) as [->|Hn].
  - rewrite (get_rq_set_rq _ _ _ _ G). reflexivity.
  - unfold get_rq, set_rq, upd. cbn [st_heap]. rewrite (nth_error_set_nth_other _ _ _ _ Hn). reflexivity.
Qed.

Lemma rcount_del_rq st h0 h : rcount (del_rq st h0) h = if Nat.eqb h h0 then 0 else rcount st h.
Proof.
  unfold rcount. destruct (Nat.eqb_spec h h0) as [->|Hn].
  - unfold get_rq, del_rq, upd. cbn [st_heap].
    destruct (nth_error_set_nth_cases (st_heap st) h0 None h0) as [E | [_ E]]; rewrite E; [|reflexivity].
    destruct (Nat.lt_ge_cases h0 (length (st_heap st))) as [L|L].
    + rewrite (nth_error_set_nth _ _ _ L) in E. rewrite <- E. reflexivity.
    + apply nth_error_None in L. rewrite L. reflexivity.
  - unfold get_rq, del_rq, upd. cbn [st_heap]. rewrite (nth_error_set_nth_other _ _ _ _ Hn). reflexivity.
Qed.

(* rewriting the content of a request without touching its counter *)
Lemma safe_set_rq st h0 r r' e : get_rq st h0 = Some r -> rq_refcount r' = rq_refcount r -> safe st e -> safe (set_rq st h0 r') e.
Proof.
  intros G R S h. specialize (S h). rewrite refs_set_rq, (rcount_set_rq _ _ _ _ _ G).
  destruct (Nat.eqb_spec h h0) as [->|_]; [|exact S]. unfold rcount in S. rewrite G in S. lia.
Qed.

Lemma safe_upd_rq st h0 f e : (forall r, rq_refcount (f r) = rq_refcount r) -> safe st e -> safe (upd_rq st h0 f) e.
Proof.
  intros Hf S. unfold upd_rq. destruct (get_rq st h0) as [r|] eqn:G; [|exact S].
  eapply safe_set_rq; [exact G | apply Hf | exact S].
Qed.

Ltac by_cases h h0 S :=
  destruct (ind_cases h h0) as [[-> ?E] | [?Hn ?E]];
  [rewrite ?Nat.eqb_refl | rewrite ?(proj2 (Nat.eqb_neq _ _) Hn)];
  unfold add1 in S; rewrite ?E in S; unfold add1; rewrite ?E.

(* newrqref: the code obtains one more reference to a live object *)
Lemma safe_newrqref st h0 r e : get_rq st h0 = Some r -> safe st e -> safe (newrqref st h0) (add1 e h0).
Proof.
  intros G S h. specialize (S h). unfold newrqref. rewrite G, refs_set_rq, (rcount_set_rq _ _ _ _ _ G).
  by_cases h h0 S; [|lia]. unfold rcount in S. rewrite G in S. cbn [rq_refcount rq_set_refcount]. lia.
Qed.

(* freerq: the code gives up one reference; the object goes when that was the last one *)
Lemma safe_freerq st h0 e : safe st (add1 e h0) -> safe (freerq st h0) e.
Proof.
  intro S. destruct (safe_live _ _ _ S) as (r & G & L). unfold freerq. rewrite G.
  destruct (N.leb_spec (rq_refcount r) 1) as [L1|L1]; intro h; specialize (S h).
  - rewrite refs_del_rq, rcount_del_rq. by_cases h h0 S; [|lia]. unfold rcount in S. rewrite G in S. lia.
  - rewrite refs_set_rq, (rcount_set_rq _ _ _ _ _ G). by_cases h h0 S; [|lia].
    unfold rcount in S. rewrite G in S. cbn [rq_refcount rq_set_refcount]. lia.
Qed.

(* ---- tables ---- *)
Lemma ind_sym a b : ind a b = ind b a.
Proof. unfold ind. rewrite Nat.eqb_sym. reflexivity. Qed.

Lemma map_upd {A B} (f : A -> B) : forall (l : list A) i x, map f (upd l i x) = upd (map f l) i (f x).
Proof.
  unfold upd. induction l as [|y l IH]; intros i x; [reflexivity|]. destruct i as [|i]; cbn [set_nth map]; [reflexivity|].
  f_equal. apply IH.
Qed.

Lemma sf_set_slot h sv i sl' : sf h (set_slot sv i sl') + oind (sl_rq (get_slot sv i)) h <= sf h sv + oind (sl_rq sl') h.
Proof.
  unfold sf, set_slot, get_slot. cbn [s_slots]. rewrite map_upd.
  pose proof (occ_opt_upd_le h (map sl_rq (s_slots sv)) (N.to_nat i) (sl_rq sl')) as H.
  replace (nth (N.to_nat i) (map sl_rq (s_slots sv)) None) with (sl_rq (nth (N.to_nat i) (s_slots sv) empty_slot)) in H
    by (symmetry; exact (map_nth sl_rq (s_slots sv) empty_slot (N.to_nat i))). exact H.
Qed.

Lemma cf_set_cache h rqs q i x : cf h (mkClient (upd rqs i x) q) + oind (nth i rqs None) h <= cf h (mkClient rqs q) + oind x h.
Proof. unfold cf. cbn [c_rqs c_replyq]. pose proof (occ_opt_upd_le h rqs i x). lia. Qed.

Lemma cf_push h rqs q h0 : cf h (mkClient rqs (q ++ [h0])) = cf h (mkClient rqs q) + ind h0 h.
Proof. unfold cf. cbn [c_rqs c_replyq]. rewrite occ_app. lia. Qed.

Lemma client_eta cl : mkClient (c_rqs cl) (c_replyq cl) = cl.  Proof. destruct cl; reflexivity. Qed.

(* servers whose slot contents are untouched *)
Lemma safe_set_server_same st s sv' e : s_slots sv' = s_slots (get_server st s) -> safe st e -> safe (set_server st s sv') e.
Proof. intros H. apply safe_set_server. intro h. unfold sf. rewrite H. lia. Qed.

(* heap operations leave the tables alone *)
Lemma get_server_freerq st h s : get_server (freerq st h) s = get_server st s.
Proof. unfold freerq. destruct (get_rq st h) as [r|]; [|reflexivity]. destruct (rq_refcount r <=? 1); reflexivity. Qed.
Lemma get_client_freerq st h c : get_client (freerq st h) c = get_client st c.
Proof. unfold freerq. destruct (get_rq st h) as [r|]; [|reflexivity]. destruct (rq_refcount r <=? 1); reflexivity. Qed.
Lemma freerq_set_server st h s x : freerq (set_server st s x) h = set_server (freerq st h) s x.
Proof.
  unfold freerq. change (get_rq (set_server st s x) h) with (get_rq st h).
  destruct (get_rq st h) as [r|]; [|reflexivity]. destruct (rq_refcount r <=? 1); reflexivity.
Qed.

(* freerqoutdata: the slot's reference is given up, the slot emptied *)
Lemma safe_freerqoutdata st s i e : safe st e -> safe (freerqoutdata st s i) e.
Proof.
  intro S. unfold freerqoutdata. cbv zeta.
  destruct (sl_rq (get_slot (get_server st s) i)) as [h|] eqn:Sl.
  - destruct (get_rq st h) as [r|] eqn:G.
    + rewrite get_server_freerq. change (get_server (set_rq st h (rq_set_to (rq_set_buf r None) None)) s) with (get_server st s).
      rewrite <- freerq_set_server. apply safe_freerq.
      apply (safe_set_server (set_rq st h (rq_set_to (rq_set_buf r None) None)) s _ e (add1 e h)).
      * intro h'. change (get_server (set_rq st h (rq_set_to (rq_set_buf r None) None)) s) with (get_server st s).
        pose proof (sf_set_slot h' (get_server st s) i empty_slot) as K. rewrite Sl in K. cbn [oind sl_rq empty_slot] in K.
        unfold add1. rewrite (ind_sym h' h). lia.
      * eapply safe_set_rq; [exact G | reflexivity | exact S].
    + apply (safe_set_server st s _ e e); [|exact S]. intro h'.
      pose proof (sf_set_slot h' (get_server st s) i empty_slot) as K. cbn [oind sl_rq empty_slot] in K. lia.
  - apply (safe_set_server st s _ e e); [|exact S]. intro h'.
    pose proof (sf_set_slot h' (get_server st s) i empty_slot) as K. cbn [oind sl_rq empty_slot] in K. lia.
Qed.

Lemma get_client_freerqoutdata st s i c : get_client (freerqoutdata st s i) c = get_client st c.
Proof.
  unfold freerqoutdata. cbv zeta. destruct (sl_rq (get_slot (get_server st s) i)) as [h|]; [|reflexivity].
  destruct (get_rq st h) as [r|]; [|reflexivity].
  change (get_client (freerq (set_rq st h (rq_set_to (rq_set_buf r None) None)) h) c = get_client st c).
  rewrite get_client_freerq. reflexivity.
Qed.

(* removeclientrq: the cache entry's reference is given up (and the slot's, when the request is in flight) *)
Lemma safe_removeclientrq st c i e : safe st e -> safe (removeclientrq st c i) e.
Proof.
  intro S. unfold removeclientrq. cbv zeta.
  destruct (nth (N.to_nat i) (c_rqs (get_client st c)) None) as [h|] eqn:En; [|exact S].
  destruct (get_rq st h) as [r|] eqn:G; [|exact S].
  set (st1 := match rq_to r with Some s => _ | None => st end).
  assert (S1 : safe st1 e).
  { subst st1. destruct (rq_to r) as [s|]; [|exact S]. destruct (sl_rq _) as [h'|]; [|exact S].
    destruct (Nat.eqb h' h); [apply safe_freerqoutdata|]; exact S. }
  assert (C1 : get_client st1 c = get_client st c).
  { subst st1. destruct (rq_to r) as [s|]; [|reflexivity]. destruct (sl_rq _) as [h'|]; [|reflexivity].
    destruct (Nat.eqb h' h); [apply get_client_freerqoutdata | reflexivity]. }
  apply safe_freerq. apply (safe_set_client st1 c _ e (add1 e h)); [|exact S1].
  intro h'. rewrite C1. pose proof (cf_set_cache h' (c_rqs (get_client st c)) (c_replyq (get_client st c)) (N.to_nat i) None) as K.
  rewrite En, client_eta in K. cbn [oind] in K. unfold add1. rewrite (ind_sym h' h). lia.
Qed.

(* rmclientrq: the request's own cache entry is forgotten; its reference given up *)
Lemma safe_rmclientrq st h id e : safe st e -> safe (rmclientrq st h id) e.
Proof.
  intro S. unfold rmclientrq. destruct (get_rq st h) as [r|] eqn:G; [|exact S].
  destruct (rq_from r) as [c|]; [|exact S].
  destruct (nth (N.to_nat id) (c_rqs (get_client st c)) None) as [h'|] eqn:En; [|exact S].
  apply safe_freerq.
  assert (S1 : safe (set_client st c (mkClient (upd (c_rqs (get_client st c)) (N.to_nat id) None) (c_replyq (get_client st c)))) (add1 e h')).
  { apply (safe_set_client st c _ e (add1 e h')); [|exact S]. intro x.
    pose proof (cf_set_cache x (c_rqs (get_client st c)) (c_replyq (get_client st c)) (N.to_nat id) None) as K.
    rewrite En, client_eta in K. cbn [oind] in K. unfold add1. rewrite (ind_sym x h'). lia. }
  apply (safe_set_rq _ h r (rq_set_from r None)); [exact G | reflexivity | exact S1].
Qed.

Section H.
  Variable md5 : bytes -> bytes.
  Variable cfg : config.
  Variable fs : N -> bool.

  (* sendreply takes over the caller's reference: the reply queue holds it, or it is released *)
  Lemma safe_sendreply st h e : safe st (add1 e h) -> safe (fst (sendreply md5 cfg fs st h)) e.
  Proof.
    intro S. unfold sendreply. destruct (get_rq st h) as [r|] eqn:G; [|exact (safe_drop _ _ _ S)].
    destruct (rq_from r) as [c|]; [|exact (safe_drop _ _ _ S)]. cbv zeta.
    match goal with |- context [set_rq st h ?r1] => set (R1 := r1) end.
    assert (S1 : safe (set_rq st h R1) (add1 e h)) by (eapply safe_set_rq; [exact G | reflexivity | exact S]).
    match goal with |- context [if fs 14 then None else ?rb] => destruct (if fs 14 then None else rb) as [b|] end; cbn [fst].
    - apply (safe_set_client (set_rq st h R1) c _ (add1 e h) e); [|exact S1]. intro x.
      rewrite cf_push, client_eta. unfold add1. rewrite (ind_sym x h). lia.
    - apply safe_freerq. exact S1.
  Qed.

  (* respond builds the reply in place, takes a reference for the reply queue and hands it to sendreply *)
  Lemma safe_respond st h code extra ma e : safe st e -> safe (fst (respond md5 cfg fs st h code extra ma)) e.
  Proof.
    intro S. unfold respond. destruct (get_rq st h) as [r|] eqn:G; [|exact S].
    destruct (rq_msg r) as [m|]; [|exact S]. cbv zeta.
    match goal with |- context [match ?x with Some a1 => _ | None => (st, []) end] => destruct x as [a1|] end; [|exact S].
    match goal with |- context [set_rq st h ?r1] => set (R1 := r1) end.
    apply safe_sendreply. apply (safe_newrqref _ h R1).
    - eapply get_rq_set_rq. exact G.
    - eapply safe_set_rq; [exact G | reflexivity | exact S].
  Qed.

  Lemma safe_purge_f c now : forall fuel st i e, safe st e -> safe (purge_f cfg fuel st c i now) e.
  Proof.
    induction fuel as [|f IH]; intros st i e S; [exact S|]. cbn [purge_f]. cbv zeta. apply IH.
    destruct (nth i (c_rqs (get_client st c)) None) as [h|]; [|exact S].
    destruct (get_rq st h) as [r|]; [|exact S].
    match goal with |- context [if ?g then _ else _] => destruct g end; [apply safe_removeclientrq|]; exact S.
  Qed.

  Lemma safe_purgedupcache st c now e : safe st e -> safe (purgedupcache cfg st c now) e.
  Proof. unfold purgedupcache. generalize 256%nat. intro n. apply safe_purge_f. Qed.

  (* addclientrq: the caller keeps its reference; a registered request gets a second one for the cache;
     a repeat may queue the stored reply of the earlier copy (which gets a reference for the queue) *)
  Lemma safe_addclientrq st h c now e isnew st' o : addclientrq md5 cfg fs st h c now = (isnew, st', o) ->
    safe st (add1 e h) -> safe st' (add1 e h).
  Proof.
    unfold addclientrq. intros A S. destruct (get_rq st h) as [rq|] eqn:G; [|injection A as _ <- _; exact S].
    cbv zeta in A.
    assert (Reg : forall stx, safe stx (add1 e h) ->
              safe (newrqref (set_client stx c (mkClient (upd (c_rqs (get_client stx c)) (N.to_nat (rq_rqid rq)) (Some h)) (c_replyq (get_client stx c)))) h) (add1 e h)).
    { intros stx Sx. destruct (safe_live _ _ _ Sx) as (rx0 & Gx & _).
      set (stc := set_client stx c _).
      assert (Sc : safe stc e).
      { subst stc. apply (safe_set_client stx c _ (add1 e h) e); [|exact Sx]. intro x.
        pose proof (cf_set_cache x (c_rqs (get_client stx c)) (c_replyq (get_client stx c)) (N.to_nat (rq_rqid rq)) (Some h)) as K.
        rewrite client_eta in K. cbn [oind] in K. unfold add1. rewrite (ind_sym x h). lia. }
      apply (safe_newrqref stc h rx0 e); [exact Gx | exact Sc]. }
    destruct (nth (N.to_nat (rq_rqid rq)) (c_rqs (get_client st c)) None) as [h'|] eqn:En.
    2:{ injection A as _ <- _. apply Reg. exact S. }
    destruct (get_rq st h') as [r|] eqn:G'.
    2:{ injection A as _ <- _. apply Reg. exact S. }
    match type of A with context [if ?g then _ else _] => destruct g end.
    - destruct (rq_replybuf r).
      + destruct (sendreply md5 cfg fs (newrqref st h') h') as [st1 o1] eqn:SR. injection A as _ <- _.
        change st1 with (fst (st1, o1)). rewrite <- SR. apply safe_sendreply.
        apply (safe_newrqref st h' r (add1 e h) G' S).
      + injection A as _ <- _. exact S.
    - injection A as _ <- _. apply Reg. apply safe_removeclientrq. exact S.
  Qed.

  (* _internal_sendrq: on success the slot takes over the caller's reference *)
  Lemma safe_internal_sendrq st s id h e st1 o : internal_sendrq md5 cfg fs st s id h = Some (st1, o) ->
    safe st (add1 e h) -> safe st1 e.
  Proof.
    unfold internal_sendrq. cbv zeta. intros I S.
    destruct (sl_rq (get_slot (get_server st s) id)) as [x|] eqn:Sl; [discriminate|].
    destruct (get_rq st h) as [r|] eqn:G; [|discriminate].
    destruct (rq_msg r) as [m|]; [|discriminate].
    destruct (fs (100 + id)); [discriminate|].
    destruct (radmsg2buf md5 (set_id m id) (sc_secret (srvconf_of cfg s))) as [[[b a]|]|]; try discriminate.
    injection I as <- _.
    match goal with |- context [set_rq st h ?r1] => set (R1 := r1) end.
    apply (safe_set_server (set_rq st h R1) s _ (add1 e h) e).
    - intro x. change (get_server (set_rq st h R1) s) with (get_server st s).
      pose proof (sf_set_slot x (get_server st s) id (mkSlot (Some h) (sl_tries (get_slot (get_server st s) id)) (sl_expiry (get_slot (get_server st s) id)))) as K.
      rewrite Sl in K. cbn [oind sl_rq] in K. unfold add1. rewrite (ind_sym x h). lia.
    - eapply safe_set_rq; [exact G | reflexivity | exact S].
  Qed.

  Lemma safe_scan_ids s h e : forall fuel st i limit k st1 o, scan_ids md5 cfg fs fuel st s i limit h = Some (k, st1, o) ->
    safe st (add1 e h) -> safe st1 e.
  Proof.
    induction fuel as [|f IH]; intros st i limit k st1 o Sc S; [discriminate|]. cbn [scan_ids] in Sc.
    destruct (limit <=? i); [discriminate|].
    destruct (internal_sendrq md5 cfg fs st s i h) as [[st2 o2]|] eqn:I.
    - injection Sc as _ <- _. eapply safe_internal_sendrq; eassumption.
    - eapply IH; eassumption.
  Qed.

  (* sendrq takes over the caller's reference: a slot holds it, or the request is forgotten and released *)
  Lemma safe_sendrq st h e : safe st (add1 e h) -> safe (fst (sendrq md5 cfg fs st h)) e.
  Proof.
    intro S.
    assert (Fail : forall stx, safe stx (add1 e h) ->
              safe (freerq (match get_rq stx h with
                            | Some r' => match rq_from r' with Some _ => rmclientrq stx h (rq_rqid r') | None => stx end
                            | None => stx end) h) e).
    { intros stx Sx. apply safe_freerq. destruct (get_rq stx h) as [r'|]; [|exact Sx].
      destruct (rq_from r'); [apply safe_rmclientrq|]; exact Sx. }
    pose proof (Fail st S) as F0.
    unfold sendrq. destruct (get_rq st h) as [r|] eqn:G; [|exact (safe_drop _ _ _ S)]. cbv zeta.
    destruct (rq_to r) as [s|]; [|cbn [fst]; exact F0].
    assert (Sig : forall stx ex, safe stx ex -> safe (set_server stx s (set_newrq (get_server stx s) true)) ex).
    { intros stx ex Sx. apply safe_set_server_same; [reflexivity | exact Sx]. }
    assert (Nx : forall stx ex n, safe stx ex -> safe (set_server stx s (set_nextid (get_server stx s) n)) ex).
    { intros stx ex n Sx. apply safe_set_server_same; [reflexivity | exact Sx]. }
    match goal with |- context [if ?c then _ else _] => destruct c end.
    - destruct (internal_sendrq md5 cfg fs st s 0 h) as [[st1 o1]|] eqn:I; cbn [fst]; [|exact F0].
      apply Sig. eapply safe_internal_sendrq; eassumption.
    - match goal with |- context [scan_ids md5 cfg fs 257 ?st0 s ?a Consts.MAX_REQUESTS h] => set (ST0 := st0) end.
      match goal with |- context [scan_ids md5 cfg fs 257 ST0 s ?a Consts.MAX_REQUESTS h] =>
        destruct (scan_ids md5 cfg fs 257 ST0 s a Consts.MAX_REQUESTS h) as [[[k st1] o1]|] eqn:S1 end.
      + cbn [fst]. apply Sig. assert (S0 : safe ST0 (add1 e h)) by (apply Nx; exact S).
        pose proof (safe_scan_ids _ _ _ _ _ _ _ _ _ _ S1 S0) as K.
        destruct (_ <=? k); [apply Nx|]; exact K.
      + match goal with |- context [scan_ids md5 cfg fs 257 ST0 s ?a ?b' h] =>
          destruct (scan_ids md5 cfg fs 257 ST0 s a b' h) as [[[k st1] o1]|] eqn:S2 end; cbn [fst].
        * apply Sig. assert (S0 : safe ST0 (add1 e h)) by (apply Nx; exact S).
          pose proof (safe_scan_ids _ _ _ _ _ _ _ _ _ _ S2 S0) as K.
          destruct (_ <=? k); [apply Nx|]; exact K.
        * apply Fail. apply Nx. exact S.
  Qed.

  Lemma safe_choose st idxs to st' e : choose st idxs = (to, st') -> safe st e -> safe st' e.
  Proof.
    unfold choose. destruct (choosesrvconf _) as [cidx l']. intro H. injection H as _ <-.
    generalize (combine idxs l'). intro l. revert st. induction l as [|p l IH]; intros st S; [exact S|].
    cbn [fold_left]. apply IH. apply safe_set_server_same; [reflexivity | exact S].
  Qed.
End H.

(* ---- servers: comparing what two server records hold ---- *)
Definition sle (sv' sv : server) : Prop := forall h, sf h sv' <= sf h sv.
Lemma sle_refl sv : sle sv sv.  Proof. intro h. lia. Qed.
Lemma sle_trans a b c : sle a b -> sle b c -> sle a c.
Proof. intros H1 H2 h. specialize (H1 h). specialize (H2 h). lia. Qed.
Lemma sle_same a b : s_slots a = s_slots b -> sle a b.
Proof. intros H h. unfold sf. rewrite H. lia. Qed.

Lemma get_slot_in_range sv i h : sl_rq (get_slot sv i) = Some h -> (N.to_nat i < length (s_slots sv))%nat.
Proof.
  unfold get_slot. intro H. destruct (Nat.lt_ge_cases (N.to_nat i) (length (s_slots sv))) as [L|L]; [exact L|].
  rewrite (nth_overflow _ _ L) in H. discriminate H.
Qed.

Lemma get_slot_set_slot sv i x h : sl_rq (get_slot sv i) = Some h -> get_slot (set_slot sv i x) i = x.
Proof.
  intro H. pose proof (get_slot_in_range _ _ _ H) as L. unfold get_slot, set_slot, upd. cbn [s_slots].
  rewrite nth_set_nth. destruct (Nat.ltb_spec (N.to_nat i) (length (s_slots sv))); [reflexivity | lia].
Qed.

(* rewriting a slot's counters while it keeps holding the same request *)
Lemma sle_set_slot_keep sv i h t x : sl_rq (get_slot sv i) = Some h -> sle (set_slot sv i (mkSlot (Some h) t x)) sv.
Proof. intros H h'. pose proof (sf_set_slot h' sv i (mkSlot (Some h) t x)) as K. rewrite H in K. cbn [sl_rq] in K. lia. Qed.

Lemma set_nth_set_nth {A} : forall (l : list A) i a b, set_nth (set_nth l i a) i b = set_nth l i b.
Proof. induction l as [|y l IH]; intros [|i] a b; cbn [set_nth]; try reflexivity. f_equal. apply IH. Qed.

Lemma set_server_set_server st s a b : set_server (set_server st s a) s b = set_server st s b.
Proof. unfold set_server, upd. cbn [st_heap st_clients st_servers]. rewrite set_nth_set_nth. reflexivity. Qed.

Lemma safe_set_server_sle st s sv' e : sle sv' (get_server st s) -> safe st e -> safe (set_server st s sv') e.
Proof. intro H. apply safe_set_server. intro h. specialize (H h). lia. Qed.

(* a fresh object with one reference, held by the code that made it *)
Lemma safe_alloc_rq st r e : rq_refcount r = 1 -> safe st e -> safe (fst (alloc_rq st r)) (add1 e (snd (alloc_rq st r))).
Proof.
  intros R S h. unfold alloc_rq. cbn [fst snd]. specialize (S h).
  change (refs (mkState (st_heap st ++ [Some r]) (st_clients st) (st_servers st)) h) with (refs st h).
  unfold rcount, get_rq in *. cbn [st_heap].
  destruct (Nat.lt_ge_cases h (length (st_heap st))) as [L|L].
  - rewrite (nth_error_app1 _ _ L). unfold add1. rewrite (ind_diff h (length (st_heap st))) by lia. lia.
  - rewrite (proj2 (nth_error_None _ _) L) in S. rewrite (nth_error_app2 _ _ L).
    destruct (Nat.eq_dec h (length (st_heap st))) as [->|Hn].
    + rewrite Nat.sub_diag. cbn [nth_error]. unfold add1. rewrite ind_same. lia.
    + unfold add1. rewrite (ind_diff _ _ Hn).
      destruct (h - length (st_heap st))%nat as [|k] eqn:D; [lia|]. cbn [nth_error]. destruct k; cbn [nth_error]; lia.
Qed.

Section R.
  Variable md5 : bytes -> bytes.
  Variable rx : N -> bytes -> option (list (Z * Z)).
  Variable cfg : config.
  Variable fs : N -> bool.

  (* radsrv consumes exactly the reference it is called with, on every path *)
  Theorem safe_radsrv st h c now rnd e : safe st (add1 e h) -> safe (fst (radsrv md5 rx cfg fs st h c now rnd)) e.
  Proof.
    intro S0. unfold radsrv. destruct (get_rq st h) as [r0|] eqn:H0; [|exact (safe_drop _ _ _ S0)]. cbv zeta.
    assert (SB : safe (set_rq st h (rq_set_buf r0 None)) (add1 e h)) by (eapply safe_set_rq; [exact H0 | reflexivity | exact S0]).
    assert (GB : get_rq (set_rq st h (rq_set_buf r0 None)) h = Some (rq_set_buf r0 None)) by (eapply get_rq_set_rq; exact H0).
    match goal with |- context [match ?x with Some msg => _ | None => (freerq _ h, [ORet 0]) end] => destruct x as [msg|] end;
      [|cbn [fst]; apply safe_freerq; exact SB].
    destruct (m_mainvalid msg); [cbn [fst]; apply safe_freerq; exact SB|].
    match goal with |- context [set_rq (set_rq st h (rq_set_buf r0 None)) h ?r1] => set (R1 := r1) end.
    set (stA := set_rq (set_rq st h (rq_set_buf r0 None)) h R1).
    assert (SA : safe stA (add1 e h)) by (eapply safe_set_rq; [exact GB | reflexivity | exact SB]).
    (* the exits *)
    assert (Ex : forall stX (o : list out), safe stX (add1 e h) -> safe (fst (freerq stX h, o ++ [ORet 1])) e)
      by (intros stX o Sx; cbn [fst]; apply safe_freerq; exact Sx).
    assert (Rm : forall stX (o : list out) id, safe stX (add1 e h) -> safe (fst (freerq (rmclientrq stX h id) h, o ++ [ORet 1])) e)
      by (intros stX o id Sx; cbn [fst]; apply safe_freerq; apply safe_rmclientrq; exact Sx).
    assert (Re : forall stX code extra ma, safe stX (add1 e h) ->
              safe (fst (let '(st1, o) := respond md5 cfg fs stX h code extra ma in (freerq st1 h, o ++ [ORet 1]))) e).
    { intros stX code extra ma Sx. pose proof (safe_respond md5 cfg fs stX h code extra ma _ Sx) as K.
      destruct (respond md5 cfg fs stX h code extra ma) as [st1 o]. cbn [fst] in *. apply safe_freerq. exact K. }
    assert (Up : forall stX f, (forall r, rq_refcount (f r) = rq_refcount r) -> safe stX (add1 e h) -> safe (upd_rq stX h f) (add1 e h))
      by (intros stX f Hf Sx; apply safe_upd_rq; assumption).
    destruct ((m_code msg =? Consts.RAD_Disconnect_Request) || (m_code msg =? Consts.RAD_CoA_Request)); [apply Re; exact SA|].
    destruct (negb _); [apply Ex; exact SA|].
    destruct (addclientrq md5 cfg fs _ h c now) as [[isnew st1] o0] eqn:A.
    assert (S1 : safe st1 (add1 e h)).
    { eapply safe_addclientrq; [exact A|]. apply safe_purgedupcache. exact SA. }
    destruct (negb isnew); [apply Ex; exact S1|].
    destruct (m_code msg =? Consts.RAD_Status_Server); [apply Re; exact S1|].
    match goal with |- context [if ?g then (freerq st1 h, [] ++ [ORet 1]) else _] => destruct g end; [apply Ex; exact S1|].
    destruct (o_verifyeap (cf_opt cfg) && (m_code msg =? Consts.RAD_Access_Request) && negb (verifyeapformat (m_attrs msg))); [apply Re; exact S1|].
    match goal with |- context [match ?x with Some a1 => _ | None => (freerq _ h, [] ++ [ORet 1]) end] => destruct x as [a1|] end;
      [|apply Rm; exact S1].
    destruct (checkttl (o_ttl0 (cf_opt cfg)) (o_ttl1 (cf_opt cfg)) a1) as [ttlres a2].
    match goal with |- context [if ttlres =? 0 then (freerq ?stx h, _) else _] => set (st2 := stx) end.
    assert (S2 : safe st2 (add1 e h)) by (subst st2; apply Up; [reflexivity|]; apply Up; [reflexivity | exact S1]).
    destruct (ttlres =? 0); [apply Ex; exact S2|].
    destruct (gettype Consts.RAD_Attr_User_Name a2) as [ua|].
    2:{ destruct (m_code msg =? Consts.RAD_Accounting_Request); [apply Re | apply Ex]; exact S2. }
    match goal with |- context [match ?x with Some p => _ | None => (freerq _ h, [] ++ [ORet 1]) end] => destruct x as [[uname orig]|] end;
      [|apply Rm; exact S2].
    match goal with |- context [if (nlen uname =? 0) || fs 6 then (freerq (rmclientrq ?stx h _) h, _) else _] => set (st3 := stx) end.
    assert (S3 : safe st3 (add1 e h)) by (subst st3; apply Up; [reflexivity | exact S2]).
    destruct ((nlen uname =? 0) || fs 6); [apply Rm; exact S3|].
    match goal with |- context [match ?x with Some rl => _ | None => (freerq st3 h, [] ++ [ORet 1]) end] => destruct x as [rl|] end;
      [|apply Ex; exact S3].
    match goal with |- context [choose ?stc ?l] => destruct (choose stc l) as [to stc'] eqn:Ch end.
    assert (S4 : safe stc' (add1 e h)) by (eapply safe_choose; [exact Ch | exact S3]).
    destruct to as [s'|].
    2:{ destruct (rl_msg rl) as [txt|].
        - destruct (m_code msg =? Consts.RAD_Access_Request); [apply Re; exact S4|].
          destruct (rl_accresp rl && (m_code msg =? Consts.RAD_Accounting_Request)); [apply Re | apply Ex]; exact S4.
        - destruct (rl_accresp rl && (m_code msg =? Consts.RAD_Accounting_Request)); [apply Re | apply Ex]; exact S4. }
    match goal with |- context [if ?g then (freerq stc' h, [] ++ [ORet 1]) else _] => destruct g end; [apply Ex; exact S4|].
    match goal with |- context [match ?x with Some a4 => _ | None => (freerq _ h, [] ++ [ORet 1]) end] => destruct x as [a4|] end;
      [|apply Rm; exact S4].
    match goal with |- context [match ?x with Some a5 => _ | None => (freerq _ h, [] ++ [ORet 1]) end] => destruct x as [a5|] end;
      [|apply Rm; apply Up; [reflexivity | exact S4]].
    match goal with |- context [match ?x with Some a6 => _ | None => (freerq _ h, [] ++ [ORet 1]) end] => destruct x as [a6|] end;
      [|apply Rm; apply Up; [reflexivity | exact S4]].
    match goal with |- context [if ?g then (freerq _ h, [] ++ [ORet 1]) else _] => destruct g end;
      [apply Rm; apply Up; [reflexivity | exact S4]|].
    match goal with |- context [sendrq md5 cfg fs ?stf h] =>
      pose proof (safe_sendrq md5 cfg fs stf h e ltac:(apply Up; [reflexivity | exact S4])) as K;
      destruct (sendrq md5 cfg fs stf h) as [stZ oZ] end.
    cbn [fst] in *. exact K.
  Qed.

  (* replyh: the references it takes (one for the reply queue) and gives up (the slot's) balance *)
  Theorem safe_replyh st s buf now rnd e : safe st e -> safe (fst (replyh md5 rx cfg fs st s buf now rnd)) e.
  Proof.
    intro S0. unfold replyh. cbv zeta.
    set (stL := set_server st s (set_lost (get_server st s) 0)).
    assert (SL : safe stL e) by (apply safe_set_server_same; [reflexivity | exact S0]).
    assert (Same : forall stX ex sv', s_slots sv' = s_slots (get_server stX s) -> safe stX ex -> safe (set_server stX s sv') ex)
      by (intros; apply safe_set_server_same; assumption).
    destruct (sl_rq (get_slot (get_server stL s) (nth 1 buf 0))) as [h|] eqn:Sl.
    2:{ match goal with |- context [match ?x with Some msg => _ | None => (stL, [ORet 0]) end] => destruct x as [msg|] end; [|exact SL].
        destruct (negb (reply_codes (m_code msg))); exact SL. }
    destruct (get_rq stL h) as [r|] eqn:G.
    2:{ match goal with |- context [match ?x with Some msg => _ | None => (stL, [ORet 0]) end] => destruct x as [msg|] end; [|exact SL].
        destruct (negb (reply_codes (m_code msg))); exact SL. }
    match goal with |- context [match ?x with Some msg => _ | None => (stL, [ORet 0]) end] => destruct x as [msg|] end; [|exact SL].
    destruct (negb (reply_codes (m_code msg))); [exact SL|].
    destruct (sl_tries _ =? 0); [exact SL|].
    destruct (m_mainvalid msg); [exact SL|].
    match goal with |- context [if ?g then (stL, [ORet 1]) else _] => destruct g end; [exact SL|].
    match goal with |- context [if ?g =? Consts.RAD_Status_Server then _ else _] => destruct (g =? Consts.RAD_Status_Server) end.
    { cbn [fst].
      match goal with |- context [freerqoutdata ?stx s ?i] => set (stF := freerqoutdata stx s i) end.
      assert (SF : safe stF e) by (subst stF; apply safe_freerqoutdata; apply Same; [reflexivity | exact SL]).
      destruct (s_statsrv (get_server stF s) =? Consts.RSP_STATSRV_AUTO); [apply Same; [reflexivity | exact SF] | exact SF]. }
    match goal with |- context [match ?x with Some a1 => _ | None => (?stx, [ORet 1]) end] => set (stT := stx); destruct x as [a1|] end.
    2:{ cbn [fst]. subst stT. apply Same; [reflexivity|]. apply Same; [reflexivity | exact SL]. }
    assert (ST : safe stT e) by (subst stT; apply Same; [reflexivity|]; apply Same; [reflexivity | exact SL]).
    assert (GT : get_rq stT h = Some r) by exact G.
    destruct (checkttl (o_ttl0 (cf_opt cfg)) (o_ttl1 (cf_opt cfg)) a1) as [ttlres a2].
    destruct (ttlres =? 0); [exact ST|].
    destruct (rq_from r) as [c|]; [|exact ST].
    match goal with |- context [match ?x with Some a3 => _ | None => (stT, [ORet 1]) end] => destruct x as [a3|] end; [|exact ST].
    match goal with |- context [match ?x with Some a4 => _ | None => (stT, [ORet 1]) end] => destruct x as [a4|] end; [|exact ST].
    match goal with |- context [match ?x with Some a5 => _ | None => (stT, [ORet 1]) end] => destruct x as [a5|] end; [|exact ST].
    match goal with |- context [match ?x with Some a6 => _ | None => (stT, [ORet 1]) end] => destruct x as [a6|] end; [|exact ST].
    match goal with |- context [if ?g then (stT, [ORet 1]) else _] => destruct g end; [exact ST|].
    match goal with |- context [set_rq stT h ?r1] => set (R1 := r1) end.
    assert (S1 : safe (newrqref (set_rq stT h R1) h) (add1 e h)).
    { apply (safe_newrqref _ h R1); [eapply get_rq_set_rq; exact GT|]. eapply safe_set_rq; [exact GT | reflexivity | exact ST]. }
    pose proof (safe_sendreply md5 cfg fs _ h e S1) as K.
    destruct (sendreply md5 cfg fs (newrqref (set_rq stT h R1) h) h) as [st2 o2]. cbn [fst] in *.
    apply safe_freerqoutdata. exact K.
  Qed.

  Lemma slots_abandon sv b : s_slots (abandon_server sv b) = s_slots sv.
  Proof.
    unfold abandon_server, incrementlostrqs. cbv zeta.
    repeat match goal with |- context [if ?g then _ else _] => destruct g end; reflexivity.
  Qed.
  Lemma slots_incr sv : s_slots (incrementlostrqs sv) = s_slots sv.
  Proof. unfold incrementlostrqs. destruct (_ <? _); reflexivity. Qed.

  (* the writer's walk over the table: slots are rewritten in place, released when purged or abandoned *)
  Lemma safe_slots_pass s tick do_resend putfail e : forall fuel st i now, safe st e ->
    safe (fst (slots_pass cfg fuel st s i now tick do_resend putfail)) e.
  Proof.
    induction fuel as [|f IH]; intros st i now Hs; [exact Hs|]. cbn [slots_pass]. cbv zeta.
    assert (Nx : forall stX nowX (o : list out), safe stX e ->
              safe (fst (let '(st', o') := slots_pass cfg f stX s (S i) nowX tick do_resend putfail in (st', o ++ o'))) e).
    { intros stX nowX o Sx. pose proof (IH stX (S i) nowX Sx) as K. destruct (slots_pass cfg f stX s (S i) nowX tick do_resend putfail). exact K. }
    destruct (sl_rq (get_slot (get_server st s) (N.of_nat i))) as [h|] eqn:Sl; [|apply Nx; exact Hs].
    destruct (get_rq st h) as [r|]; [|apply Nx; exact Hs].
    destruct (slot_action _ _ _ _ _ _ _) as [[act tries] expiry].
    set (sv := get_server st s) in *.
    match goal with |- context [set_slot ?svw (N.of_nat i) (mkSlot (Some h) ?t1 (sl_expiry (get_slot sv (N.of_nat i))))] =>
      set (SV1 := set_slot svw (N.of_nat i) (mkSlot (Some h) t1 (sl_expiry (get_slot sv (N.of_nat i))))) end.
    assert (L1 : sle SV1 sv).
    { subst SV1. eapply sle_trans; [apply sle_set_slot_keep; exact Sl | apply sle_same; reflexivity]. }
    assert (G1 : sl_rq (get_slot SV1 (N.of_nat i)) = Some h).
    { subst SV1. rewrite (get_slot_set_slot _ _ _ h); [reflexivity | exact Sl]. }
    destruct act.
    - apply Nx. apply safe_set_server_sle; [apply sle_same; reflexivity | exact Hs].
    - apply Nx. apply safe_freerqoutdata. apply safe_set_server_sle; [exact L1 | exact Hs].
    - apply Nx. apply safe_freerqoutdata. rewrite set_server_set_server.
      apply safe_set_server_sle; [|exact Hs]. eapply sle_trans; [apply sle_same; apply slots_abandon | exact L1].
    - apply Nx. rewrite set_server_set_server. apply safe_set_server_sle; [|exact Hs].
      eapply sle_trans; [|exact L1].
      match goal with |- sle (if putfail then incrementlostrqs ?sv2 else ?sv2) SV1 => assert (L2 : sle sv2 SV1) end.
      { eapply sle_trans; [apply sle_set_slot_keep; exact G1 | apply sle_same; reflexivity]. }
      destruct putfail; [|exact L2]. eapply sle_trans; [apply sle_same; apply slots_incr | exact L2].
  Qed.

  Lemma safe_writer_iteration st s now tick rnd putfail e : safe st e ->
    safe (fst (fst (writer_iteration md5 cfg fs st s now tick rnd putfail))) e.
  Proof.
    intro S. unfold writer_iteration. cbv zeta.
    match goal with |- context [slots_pass cfg 256 ?stw s 0 now tick ?dr putfail] =>
      pose proof (safe_slots_pass s tick dr putfail e 256 stw 0%nat now ltac:(apply safe_set_server_sle; [apply sle_same; destruct (s_conreset (get_server st s)); reflexivity | exact S])) as K;
      destruct (slots_pass cfg 256 stw s 0 now tick dr putfail) as [st1 o1] end.
    cbn [fst] in K.
    match goal with |- context [if ?g then _ else (st1, o1, rnd)] => destruct g end; [|exact K].
    assert (K2 : forall x, safe (set_server st1 s (set_wr (get_server st1 s) x (s_timeout (get_server st1 s)) (s_newrq (get_server st1 s)) (s_conreset (get_server st1 s)) false)) e)
      by (intro x; apply safe_set_server_sle; [apply sle_same; reflexivity | exact K]).
    destruct (fs 40); [apply K2|]. destruct (fs 41); [apply K2|].
    match goal with |- context [createstatsrvrq ?stc s ?nw rnd] =>
      pose proof (safe_alloc_rq stc (mkRq nw 1 None None (Some (mkMsg Consts.RAD_Status_Server 0 (fst (take_rand rnd 16)) [msgauth_placeholder] false)) None (Some s) None 0 (zeros 16) 0) e eq_refl (K2 _)) as KA;
      unfold createstatsrvrq; destruct (alloc_rq stc _) as [st2 hn] end.
    cbn [fst snd] in KA. pose proof (safe_sendrq md5 cfg fs st2 hn e KA) as KS.
    destruct (sendrq md5 cfg fs st2 hn) as [st3 o2]. exact KS.
  Qed.

  Lemma safe_writer_release s tick putfail e : forall fuel st now rnd, safe st e ->
    safe (fst (writer_release md5 cfg fs fuel st s now tick rnd putfail)) e.
  Proof.
    induction fuel as [|f IH]; intros st now rnd S; [exact S|]. cbn [writer_release].
    pose proof (safe_writer_iteration st s now tick rnd putfail e S) as K.
    destruct (writer_iteration md5 cfg fs st s now tick rnd putfail) as [[st1 o1] rnd']. cbn [fst] in K.
    destruct (s_newrq (get_server st1 s)).
    - pose proof (IH st1 (now + tick * count_tx o1)%Z rnd' K) as K2.
      destruct (writer_release md5 cfg fs f st1 s _ tick rnd' putfail). exact K2.
    - unfold prewait. cbv zeta. cbn [fst]. apply safe_set_server_sle; [apply sle_same; reflexivity | exact K].
  Qed.
End R.

(* ---- the queue drains, a client goes, a server goes ---- *)
Lemma occ_cons h x q : occ h (x :: q) = ind x h + occ h q.
Proof. unfold occ, ind. cbn [filter]. rewrite (Nat.eqb_sym h x). destruct (Nat.eqb x h); cbn [length]; lia. Qed.

Lemma safe_fold_freerq : forall q st e, safe st (fun h => e h + occ h q) -> safe (fold_left freerq q st) e.
Proof.
  induction q as [|x q IH]; intros st e S.
  - cbn [fold_left]. eapply safe_weaken; [|exact S]. intro h. cbn. lia.
  - cbn [fold_left]. apply IH. apply safe_freerq. eapply safe_weaken; [|exact S].
    intro h. unfold add1. rewrite occ_cons, (ind_sym h x). lia.
Qed.

Lemma safe_drain_replyq st c e : safe st e -> safe (drain_replyq st c) e.
Proof.
  intro S. unfold drain_replyq. cbv zeta. apply safe_fold_freerq.
  apply (safe_set_client st c _ e); [|exact S]. intro h. unfold cf. cbn [c_rqs c_replyq]. cbn. lia.
Qed.

Lemma safe_removeclient st c e : safe st e -> safe (removeclient st c) e.
Proof.
  intro S. unfold removeclient. apply safe_drain_replyq.
  generalize (seq 0 256). intro l. revert st S. induction l as [|i l IH]; intros st S; [exact S|].
  cbn [fold_left]. apply IH. apply safe_removeclientrq. exact S.
Qed.

Lemma safe_freeserver st s e : safe st e -> safe (freeserver st s) e.
Proof.
  intro S. unfold freeserver. generalize (seq 0 256). intro l. revert st S. induction l as [|i l IH]; intros st S; [exact S|].
  cbn [fold_left]. apply IH. apply safe_freerqoutdata. exact S.
Qed.

(* ---- every history ---- *)
Section Hist.
  Variable md5 : bytes -> bytes.
  Variable rx : N -> bytes -> option (list (Z * Z)).
  Variable cfg : config.

  Theorem safe_hstep st op : safe st zero -> safe (hstep md5 rx cfg st op) zero.
  Proof.
    intro S. destruct op as [c now rnd pkt fs | s buf now rnd fs | s now tick rnd putfail fs | c | c | s]; cbn [hstep].
    - pose proof (safe_alloc_rq st (new_request c now pkt) zero eq_refl S) as K.
      destruct (alloc_rq st (new_request c now pkt)) as [st1 h]. cbn [fst snd] in K.
      apply safe_radsrv. exact K.
    - apply safe_replyh. exact S.
    - apply safe_writer_release. exact S.
    - apply safe_drain_replyq. exact S.
    - apply safe_removeclient. exact S.
    - apply safe_freeserver. exact S.
  Qed.

  Theorem safe_history : forall ops st, safe st zero -> safe (fold_left (hstep md5 rx cfg) ops st) zero.
  Proof. induction ops as [|op ops IH]; intros st S; [exact S|]. cbn [fold_left]. apply IH. apply safe_hstep. exact S. Qed.
End Hist.

Lemma sumN_zero {A} (f : A -> N) l : (forall x, In x l -> f x = 0) -> sumN (map f l) = 0.
Proof.
  induction l as [|y l IH]; intro H; [reflexivity|]. cbn [map sumN fold_right].
  rewrite (H y (or_introl eq_refl)). fold (sumN (map f l)). rewrite IH; [reflexivity|]. intros x Hx. apply H. right. exact Hx.
Qed.

Lemma occ_opt_repeat_none h n : occ_opt h (repeat None n) = 0.
Proof. induction n as [|n IH]; [reflexivity|]. cbn [repeat]. rewrite occ_opt_cons, IH. reflexivity. Qed.

Lemma safe_init nc ns : safe (init_state nc ns) zero.
Proof.
  intro h. rewrite refs_eq. unfold init_state. cbn [st_clients st_servers].
  rewrite !sumN_zero; [unfold zero, rcount, get_rq; cbn [st_heap]; destruct h; cbn [nth_error]; lia | |].
  - intros x Hx. apply repeat_spec in Hx. subst x. unfold sf. cbn [s_slots].
    generalize 256%nat. intro n. induction n as [|n IH]; [reflexivity|]. cbn [repeat map]. rewrite occ_opt_cons, IH. reflexivity.
  - intros x Hx. apply repeat_spec in Hx. subst x. unfold cf. cbn [c_rqs c_replyq]. rewrite occ_opt_repeat_none. reflexivity.
Qed.

(* what `safe` means between operations: whatever a cache entry, a reply queue or a slot refers to is a live
   request object whose counter covers all the places that refer to it *)
Theorem safe_no_dangling st : safe st zero -> forall h, 0 < refs st h ->
  exists r, get_rq st h = Some r /\ refs st h <= rq_refcount r.
Proof.
  intros S h Hp. specialize (S h). unfold zero, rcount in S. destruct (get_rq st h) as [r|]; [exists r; split; [reflexivity | lia] | lia].
Qed.
