(* C02: replies return to the originating client, with its identifier and authenticator (model of replyh) *)
From RSP Require Import Base Consts Ttl Crypt Packet Rewrite Choose Proxy Slots_proofs Dup_proofs.
From Coq Require Import ZifyBool ZifyNat ZifyN.
Local Open Scope N_scope.

(* the Identifier octet of a serialised message is the message's identifier *)
Lemma radmsg2buf_id md5 m secret b a : radmsg2buf md5 m secret = Ok (Some (b, a)) -> nth 1 b 0 = m_id m.
Proof.
  intro R. unfold radmsg2buf in R. cbv zeta in R.
  destruct (Consts.RADMSG2BUF_MAX <? _); [discriminate|].
  destruct (existsb _ _); [discriminate|].
  set (buf0 := radius_header _ _ _ _ ++ _) in R.
  assert (B0 : nth 1 buf0 0 = m_id m /\ (2 <= length buf0)%nat).
  { subst buf0. unfold radius_header. cbn [app nth length]. split; [reflexivity | lia]. }
  assert (R1 : forall buf1, match last_ma_split (m_attrs m) with
               | None => Ok buf0
               | Some (bef, _, _) =>
                   if (length buf0 <? 20 + length (attrs_bytes bef) + 2 + 16)%nat then Fault "radmsg2buf: message-authenticator beyond buffer"%string
                   else Ok (splice (splice buf0 (20 + length (attrs_bytes bef) + 2) (zeros 16)) (20 + length (attrs_bytes bef) + 2)
                              (hmac_md5 md5 secret (splice buf0 (20 + length (attrs_bytes bef) + 2) (zeros 16))))
               end = Ok buf1 -> nth 1 buf1 0 = m_id m /\ (2 <= length buf1)%nat).
  { clear R. intros buf1. destruct (last_ma_split _) as [[[bef x] y]|].
    - destruct (_ <? _)%nat; [discriminate|]. intro E. injection E as <-.
      destruct B0 as [B1 B2].
      destruct (nth1_splice buf0 (20 + length (attrs_bytes bef) + 2) (zeros 16) 0) as [S1 S2]; [lia | exact B2 |].
      destruct (nth1_splice (splice buf0 (20 + length (attrs_bytes bef) + 2) (zeros 16)) (20 + length (attrs_bytes bef) + 2)
                  (hmac_md5 md5 secret (splice buf0 (20 + length (attrs_bytes bef) + 2) (zeros 16))) 0) as [T1 T2]; [lia | exact S2 |].
      split; [etransitivity; [exact T1|]; etransitivity; [exact S1 | exact B1] | exact T2].
    - intro E. injection E as <-. exact B0. }
  match type of R with (match ?r1 with _ => _ end) = _ => destruct r1 as [buf1|] eqn:E1; [|discriminate] end.
  destruct (R1 buf1 eq_refl) as [I1 I2].
  injection R as <- _.
  destruct (signed_code _); [|exact I1].
  destruct (nth1_splice buf1 4 (md5 (buf1 ++ secret)) 0) as [U1 _]; [lia | exact I2 |]. congruence.
Qed.

Section R.
  Variable md5 : bytes -> bytes.
  Variable rx : N -> bytes -> option (list (Z * Z)).
  Variable cfg : config.
  Variable fs : N -> bool.

  (* what sendreply can put on a reply queue: nothing, or one packet for the client the request came from --
     the stored reply bytes if there are any, else the request's current message serialised with THAT client's secret *)
  Lemma sendreply_out st h st' o : sendreply md5 cfg fs st h = (st', o) ->
    o = [] \/
    exists r c b, get_rq st h = Some r /\ rq_from r = Some c /\ o = [OReply c b] /\
      (rq_replybuf r = Some b \/
       (rq_replybuf r = None /\ exists m a, rq_msg r = Some m /\ radmsg2buf md5 m (cc_secret (clconf_of cfg c)) = Ok (Some (b, a)))).
  Proof.
    unfold sendreply. destruct (get_rq st h) as [r|] eqn:Hr; [|intro H; injection H as <- <-; left; reflexivity].
    destruct (rq_from r) as [c|] eqn:Hf; [|intro H; injection H as <- <-; left; reflexivity].
    cbv zeta.
    destruct (rq_replybuf r) as [b|] eqn:Hb.
    - destruct (fs 14); intro H; injection H as <- <-; [left; reflexivity|].
      right. exists r, c, b. split; [reflexivity|]. split; [exact Hf|]. split; [reflexivity|]. left. exact Hb.
    - destruct (rq_msg r) as [m|] eqn:Hm.
      + destruct (fs 3); [destruct (fs 14); intro H; injection H as <- <-; left; reflexivity|].
        destruct (radmsg2buf md5 m (cc_secret (clconf_of cfg c))) as [[[b a]|]|] eqn:R;
          try (destruct (fs 14); intro H; injection H as <- <-; left; reflexivity).
        destruct (fs 14); intro H; injection H as <- <-; [left; reflexivity|].
        right. exists r, c, b. split; [reflexivity|]. split; [exact Hf|]. split; [reflexivity|]. right. split; [exact Hb|]. exists m, a. split; [exact Hm | exact R].
      + destruct (fs 14); intro H; injection H as <- <-; left; reflexivity.
  Qed.

  Definition is_reply (x : out) : bool := match x with OReply _ _ => true | _ => false end.

  (* C02: whatever packet arrives from server s, under every configuration and every failure oracle:
     if replyh delivers anything, it delivers exactly one packet, to the client that sent the request which
     currently holds the slot named by the packet's Identifier; that packet is the serialisation, under that
     client's secret, of a message whose Identifier and authenticator are the ones of the client's original
     request (so that its Response Authenticator is computed over the client's Request Authenticator, C06) *)
  Theorem replyh_to_originator st s buf now rnd c p :
    In (OReply c p) (snd (replyh md5 rx cfg fs st s buf now rnd)) ->
    exists h r,
      slot_of st s (nth 1 buf 0) = Some h /\ get_rq st h = Some r /\ rq_from r = Some c /\
      (rq_replybuf r = Some p \/
       exists code attrs a,
         radmsg2buf md5 (mkMsg code (rq_rqid r) (rq_rqauth r) attrs false) (cc_secret (clconf_of cfg c)) = Ok (Some (p, a))) /\
      filter is_reply (snd (replyh md5 rx cfg fs st s buf now rnd)) = [OReply c p].
  Proof.
    unfold replyh. cbv zeta.
    set (st0 := set_server st s (set_lost (get_server st s) 0)).
    assert (Hslot : sl_rq (get_slot (get_server st0 s) (nth 1 buf 0)) = slot_of st s (nth 1 buf 0)).
    { change (slot_of st0 s (nth 1 buf 0) = slot_of st s (nth 1 buf 0)). subst st0.
      apply (slot_of_set_server_same fs). reflexivity. }
    rewrite Hslot. clear Hslot.
    assert (Hget : forall h, get_rq st0 h = get_rq st h) by reflexivity.
    destruct (slot_of st s (nth 1 buf 0)) as [h|] eqn:Hs.
    2:{ destruct (if fs 20 then None else _) as [msg|]; [|cbn; intuition discriminate].
        destruct (negb _); cbn; intuition discriminate. }
    rewrite Hget. destruct (get_rq st h) as [r|] eqn:Hr.
    2:{ destruct (if fs 20 then None else _) as [msg|]; [|cbn; intuition discriminate].
        destruct (negb _); cbn; intuition discriminate. }
    destruct (if fs 20 then None else _) as [msg|]; [|cbn; intuition discriminate].
    destruct (negb (reply_codes (m_code msg))); [cbn; intuition discriminate|].
    destruct (sl_tries _ =? 0); [cbn; intuition discriminate|].
    destruct (m_mainvalid msg); [cbn; intuition discriminate|].
    match goal with |- context [if ?c then (_, [ORet 1]) else _] => destruct c end; [cbn; intuition discriminate|].
    destruct (_ =? Consts.RAD_Status_Server).
    { match goal with |- context [if ?c then _ else _] => destruct c end; cbn; intuition discriminate. }
    match goal with |- context [match ?x with Some _ => _ | None => (_, [ORet 1]) end] => destruct x as [a1|] end; [|cbn; intuition discriminate].
    destruct (checkttl _ _ a1) as [ttlres a2].
    destruct (ttlres =? 0); [cbn; intuition discriminate|].
    destruct (rq_from r) as [c0|] eqn:Hf; [|cbn; intuition discriminate].
    destruct (ms_loop _ _ _ _ _ _) as [a3|]; [|cbn; intuition discriminate].
    match goal with |- context [match ?x with Some _ => _ | None => (_, [ORet 1]) end] => destruct x as [a4|] end; [|cbn; intuition discriminate].
    match goal with |- context [match ?x with Some _ => _ | None => (_, [ORet 1]) end] => destruct x as [a5|] end; [|cbn; intuition discriminate].
    match goal with |- context [match ?x with Some _ => _ | None => (_, [ORet 1]) end] => destruct x as [a6|] end; [|cbn; intuition discriminate].
    match goal with |- context [if ?c then (_, [ORet 1]) else _] => destruct c end; [cbn; intuition discriminate|].
    match goal with |- context [sendreply md5 cfg fs (newrqref ?stx h) h] => set (stq := stx) end.
    destruct (sendreply md5 cfg fs (newrqref stq h) h) as [st' o] eqn:S.
    cbn [snd]. intro Hin.
    destruct (sendreply_out _ _ _ _ S) as [-> | (r' & c' & b & G & Hf' & -> & Hb)].
    { cbn in Hin. intuition discriminate. }
    (* the request sendreply saw is r with the reply message installed and one more reference *)
    assert (Gq : exists reply, get_rq stq h = Some (rq_set_msg r (Some reply)) /\ m_id reply = rq_rqid r /\ m_auth reply = rq_rqauth r /\ m_mainvalid reply = false).
    { subst stq. eexists. split; [eapply get_rq_set_rq; exact Hr|]. cbn [m_id m_auth m_mainvalid]. repeat split. }
    destruct Gq as (reply & Gq & Rid & Rau & Rmv).
    unfold newrqref in G. rewrite Gq in G. rewrite (get_rq_set_rq _ _ _ _ Gq) in G. injection G as <-.
    cbn [rq_from rq_set_refcount rq_set_msg rq_replybuf rq_msg] in *.
    rewrite Hf in Hf'. injection Hf' as <-.
    cbn [app In] in Hin. destruct Hin as [E | [E | []]]; [|discriminate]. injection E as <- <-.
    exists h, r. split; [reflexivity|]. split; [exact Hr|]. split; [exact Hf|]. split; [|reflexivity].
    destruct Hb as [Hb | (Hb & m & a & Em & R)]; [left; exact Hb|].
    right. injection Em as <-. destruct reply as [rc rid rau rat rmv]. cbn [m_id m_auth m_mainvalid] in *. subst.
    exists rc, rat, a. exact R.
  Qed.

  (* ... hence the delivered packet carries the Identifier the client used *)
  Corollary replyh_reply_id st s buf now rnd c p :
    In (OReply c p) (snd (replyh md5 rx cfg fs st s buf now rnd)) ->
    exists h r, slot_of st s (nth 1 buf 0) = Some h /\ get_rq st h = Some r /\ rq_from r = Some c /\
      (rq_replybuf r = Some p \/ nth 1 p 0 = rq_rqid r).
  Proof.
    intro H. destruct (replyh_to_originator _ _ _ _ _ _ _ H) as (h & r & Hs & Hr & Hf & Hp & _).
    exists h, r. repeat split; try assumption.
    destruct Hp as [Hp | (code & attrs & a & R)]; [left; exact Hp | right].
    apply radmsg2buf_id in R. exact R.
  Qed.
End R.

(* C04: what must have held for replyh to deliver anything *)
Section A.
  Variable md5 : bytes -> bytes.
  Variable rx : N -> bytes -> option (list (Z * Z)).
  Variable cfg : config.
  Variable fs : N -> bool.

  Definition reply_ma_required (sc : srvconf) (msg : radmsg) : bool :=
    sc_reqma sc && ((sc_type sc =? Consts.RAD_UDP) || (sc_type sc =? Consts.RAD_TCP)) && reply_code (m_code msg) &&
    (match gettype Consts.RAD_Attr_Message_Authenticator (m_attrs msg) with None => true | Some _ => false end).

  Theorem replyh_accept_only_if st s buf now rnd c p :
    In (OReply c p) (snd (replyh md5 rx cfg fs st s buf now rnd)) ->
    exists h r msg,
      slot_of st s (nth 1 buf 0) = Some h /\ get_rq st h = Some r /\
      sl_tries (get_slot (get_server st s) (nth 1 buf 0)) <> 0 /\
      buf2radmsg md5 buf (sc_secret (srvconf_of cfg s)) (match rq_msg r with Some m => Some (m_auth m) | None => None end) = Some msg /\
      reply_codes (m_code msg) = true /\ m_mainvalid msg = false /\
      reply_ma_required (srvconf_of cfg s) msg = false /\
      (match rq_msg r with Some m => m_code m | None => 0 end) <> Consts.RAD_Status_Server.
  Proof.
    unfold replyh. cbv zeta.
    set (st0 := set_server st s (set_lost (get_server st s) 0)).
    assert (Hslot : sl_rq (get_slot (get_server st0 s) (nth 1 buf 0)) = slot_of st s (nth 1 buf 0)).
    { change (slot_of st0 s (nth 1 buf 0) = slot_of st s (nth 1 buf 0)). subst st0.
      apply (slot_of_set_server_same fs). reflexivity. }
    assert (Htries : sl_tries (get_slot (get_server st0 s) (nth 1 buf 0)) = sl_tries (get_slot (get_server st s) (nth 1 buf 0))).
    { subst st0. unfold get_server, set_server, upd, get_slot. cbn [st_servers]. rewrite nth_set_nth.
      destruct (Nat.ltb_spec s (length (st_servers st))) as [L|L]; [reflexivity|].
      rewrite (nth_overflow (st_servers st)) by exact L. reflexivity. }
    rewrite Hslot, Htries. clear Hslot Htries.
    assert (Hget : forall h, get_rq st0 h = get_rq st h) by reflexivity.
    destruct (slot_of st s (nth 1 buf 0)) as [h|] eqn:Hs.
    2:{ destruct (if fs 20 then None else _) as [msg|]; [|cbn; intuition discriminate].
        destruct (negb _); cbn; intuition discriminate. }
    rewrite Hget. destruct (get_rq st h) as [r|] eqn:Hr.
    2:{ destruct (if fs 20 then None else _) as [msg|]; [|cbn; intuition discriminate].
        destruct (negb _); cbn; intuition discriminate. }
    destruct (fs 20); [cbn; intuition discriminate|].
    destruct (buf2radmsg md5 buf _ _) as [msg|] eqn:Hp; [|cbn; intuition discriminate].
    destruct (negb (reply_codes (m_code msg))) eqn:Hc; [cbn; intuition discriminate|].
    destruct (sl_tries _ =? 0) eqn:Ht; [cbn; intuition discriminate|].
    destruct (m_mainvalid msg) eqn:Hv; [cbn; intuition discriminate|].
    match goal with |- context [if ?g then (_, [ORet 1]) else _] => destruct g eqn:Hma end; [cbn; intuition discriminate|].
    destruct (_ =? Consts.RAD_Status_Server) eqn:Hst.
    { match goal with |- context [if ?g then _ else _] => destruct g end; cbn; intuition discriminate. }
    intros _. exists h, r, msg. split; [reflexivity|]. split; [exact Hr|]. split; [lia|]. split; [exact Hp|].
    split; [apply negb_false_iff in Hc; exact Hc|]. split; [exact Hv|]. split; [exact Hma|]. lia.
  Qed.
End A.

(* Full inversion of replyh: what a freshly serialised, delivered reply is made of *)
Section D.
  Variable md5 : bytes -> bytes.
  Variable rx : N -> bytes -> option (list (Z * Z)).
  Variable cfg : config.
  Variable fs : N -> bool.

  Inductive delivered (st : state) (s : nat) (buf rnd : bytes) (c : nat) (p : bytes) : Prop := mkDelivered
    (dl_h : nat) (dl_r : request) (dl_msg : radmsg) (dl_a1 : list tlv) (dl_ttlres : N)
    (dl_a2 dl_a3 dl_a4 dl_a5 dl_a6 dl_a8 : list tlv) (dl_ser : bytes)
    (dl_slot : slot_of st s (nth 1 buf 0) = Some dl_h)
    (dl_live : get_rq st dl_h = Some dl_r)
    (dl_from : rq_from dl_r = Some c)
    (dl_parsed : buf2radmsg md5 buf (sc_secret (srvconf_of cfg s)) (match rq_msg dl_r with Some m => Some (m_auth m) | None => None end) = Some dl_msg)
    (dl_code : reply_codes (m_code dl_msg) = true)
    (dl_rwin : dorewrite rx (m_attrs dl_msg) (sc_rwin (srvconf_of cfg s)) = Some dl_a1)
    (dl_ttl : checkttl (o_ttl0 (cf_opt cfg)) (o_ttl1 (cf_opt cfg)) dl_a1 = (dl_ttlres, dl_a2) /\ dl_ttlres <> 0)
    (dl_mppe : ms_loop md5 dl_a2 (sc_secret (srvconf_of cfg s)) (cc_secret (clconf_of cfg c))
                 (match rq_buf dl_r with Some b => firstn 16 (skipn 4 b) | None => [] end) (rq_rqauth dl_r) = Some dl_a3)
    (dl_tunnel : (if m_code dl_msg =? Consts.RAD_Access_Accept
                  then tunnelpwd_loop md5 dl_a3 (sc_secret (srvconf_of cfg s)) (cc_secret (clconf_of cfg c))
                         (match rq_msg dl_r with Some m => m_auth m | None => [] end) (rq_rqauth dl_r) rnd
                  else Some dl_a3) = Some dl_a4)
    (dl_user : match rq_origuser dl_r, gettype Consts.RAD_Attr_User_Name dl_a4 with
               | Some ou, Some _ => if Consts.RAD_Max_Attr_Value_Length <? nlen ou then None
                                    else Some (replace_first Consts.RAD_Attr_User_Name ou dl_a4)
               | _, _ => Some dl_a4
               end = Some dl_a5)
    (dl_rwout : dorewrite rx dl_a5 (cc_rwout (clconf_of cfg c)) = Some dl_a6)
    (dl_final : dl_a8 = (let a7 := if reply_code (m_code dl_msg) then ensuremsgauthfront dl_a6 else dl_a6 in
                         if fs 30 then a7 else ttl_stage_add (o_ttl0 (cf_opt cfg)) (o_ttl1 (cf_opt cfg)) (o_addttl (cf_opt cfg)) (cc_addttl (clconf_of cfg c)) dl_ttlres a7))
    (dl_bytes : radmsg2buf md5 (mkMsg (m_code dl_msg) (rq_rqid dl_r) (rq_rqauth dl_r) dl_a8 false) (cc_secret (clconf_of cfg c)) = Ok (Some (p, dl_ser))).

  Theorem replyh_delivered st s buf now rnd c p :
    In (OReply c p) (snd (replyh md5 rx cfg fs st s buf now rnd)) ->
    (exists h r, slot_of st s (nth 1 buf 0) = Some h /\ get_rq st h = Some r /\ rq_from r = Some c /\ rq_replybuf r = Some p) \/
    delivered st s buf rnd c p.
  Proof.
    unfold replyh. cbv zeta.
    set (st0 := set_server st s (set_lost (get_server st s) 0)).
    assert (Hslot : sl_rq (get_slot (get_server st0 s) (nth 1 buf 0)) = slot_of st s (nth 1 buf 0)).
    { change (slot_of st0 s (nth 1 buf 0) = slot_of st s (nth 1 buf 0)). subst st0.
      apply (slot_of_set_server_same fs). reflexivity. }
    rewrite Hslot. clear Hslot.
    assert (Hget : forall h, get_rq st0 h = get_rq st h) by reflexivity.
    destruct (slot_of st s (nth 1 buf 0)) as [h|] eqn:Hs.
    2:{ destruct (if fs 20 then None else _) as [msg|]; [|cbn; intuition discriminate].
        destruct (negb _); cbn; intuition discriminate. }
    rewrite Hget. destruct (get_rq st h) as [r|] eqn:Hr.
    2:{ destruct (if fs 20 then None else _) as [msg|]; [|cbn; intuition discriminate].
        destruct (negb _); cbn; intuition discriminate. }
    destruct (fs 20); [cbn; intuition discriminate|].
    destruct (buf2radmsg md5 buf _ _) as [msg|] eqn:Hp; [|cbn; intuition discriminate].
    destruct (negb (reply_codes (m_code msg))) eqn:Hc; [cbn; intuition discriminate|].
    destruct (sl_tries _ =? 0); [cbn; intuition discriminate|].
    destruct (m_mainvalid msg); [cbn; intuition discriminate|].
    match goal with |- context [if ?g then (_, [ORet 1]) else _] => destruct g end; [cbn; intuition discriminate|].
    destruct (_ =? Consts.RAD_Status_Server).
    { match goal with |- context [if ?g then _ else _] => destruct g end; cbn; intuition discriminate. }
    match goal with |- context [match ?x with Some _ => _ | None => (_, [ORet 1]) end] => destruct x as [a1|] eqn:Rw end; [|cbn; intuition discriminate].
    assert (Rw' : dorewrite rx (m_attrs msg) (sc_rwin (srvconf_of cfg s)) = Some a1)
      by (revert Rw; destruct (sc_rwin (srvconf_of cfg s)); [destruct (fs 21); [discriminate|]|]; exact (fun x => x)).
    destruct (checkttl _ _ a1) as [ttlres a2] eqn:Ttl.
    destruct (ttlres =? 0) eqn:T0; [cbn; intuition discriminate|].
    destruct (rq_from r) as [c0|] eqn:Hf; [|cbn; intuition discriminate].
    destruct (ms_loop _ _ _ _ _ _) as [a3|] eqn:Ms; [|cbn; intuition discriminate].
    match goal with |- context [match ?x with Some _ => _ | None => (_, [ORet 1]) end] => destruct x as [a4|] eqn:Tp end; [|cbn; intuition discriminate].
    match goal with |- context [match ?x with Some _ => _ | None => (_, [ORet 1]) end] => destruct x as [a5|] eqn:Un end; [|cbn; intuition discriminate].
    assert (Un' : match rq_origuser r, gettype Consts.RAD_Attr_User_Name a4 with
                  | Some ou, Some _ => if Consts.RAD_Max_Attr_Value_Length <? nlen ou then None
                                       else Some (replace_first Consts.RAD_Attr_User_Name ou a4)
                  | _, _ => Some a4
                  end = Some a5).
    { revert Un. destruct (rq_origuser r); [|exact (fun x => x)]. destruct (gettype Consts.RAD_Attr_User_Name a4); [|exact (fun x => x)].
      destruct (_ <? _); [exact (fun x => x)|]. destruct (fs 24); [discriminate | exact (fun x => x)]. }
    match goal with |- context [match ?x with Some _ => _ | None => (_, [ORet 1]) end] => destruct x as [a6|] eqn:Rwo end; [|cbn; intuition discriminate].
    assert (Rwo' : dorewrite rx a5 (cc_rwout (clconf_of cfg c0)) = Some a6)
      by (revert Rwo; destruct (cc_rwout (clconf_of cfg c0)); [destruct (fs 25); [discriminate|]|]; exact (fun x => x)).
    match goal with |- context [if ?g then (_, [ORet 1]) else _] => destruct g end; [cbn; intuition discriminate|].
    match goal with |- context [sendreply md5 cfg fs (newrqref ?stx h) h] => set (stq := stx) end.
    destruct (sendreply md5 cfg fs (newrqref stq h) h) as [st' o] eqn:S.
    cbn [snd]. intro Hin.
    destruct (sendreply_out _ _ _ _ _ _ _ S) as [-> | (r' & c' & b & G & Hf' & -> & Hb)].
    { cbn in Hin. intuition discriminate. }
    assert (Gq : get_rq stq h = Some (rq_set_msg r (Some (mkMsg (m_code msg) (rq_rqid r) (rq_rqauth r)
                   (if fs 30 then (if reply_code (m_code msg) then ensuremsgauthfront a6 else a6)
                    else ttl_stage_add (o_ttl0 (cf_opt cfg)) (o_ttl1 (cf_opt cfg)) (o_addttl (cf_opt cfg)) (cc_addttl (clconf_of cfg c0)) ttlres
                           (if reply_code (m_code msg) then ensuremsgauthfront a6 else a6)) false)))).
    { subst stq. eapply get_rq_set_rq. exact Hr. }
    unfold newrqref in G. rewrite Gq in G. rewrite (get_rq_set_rq _ _ _ _ Gq) in G. injection G as <-.
    cbn [rq_from rq_set_refcount rq_set_msg rq_replybuf rq_msg] in *.
    rewrite Hf in Hf'. injection Hf' as <-.
    cbn [app In] in Hin. destruct Hin as [E | [E | []]]; [|discriminate]. injection E as <- <-.
    destruct Hb as [Hb | (Hb & m & a & Em & R)].
    - left. exists h, r. repeat split; assumption.
    - right. injection Em as <-.
      eapply (mkDelivered st s buf rnd c0 b h r msg a1 ttlres a2 a3 a4 a5 a6 _ a); try eassumption; try reflexivity.
      + apply negb_false_iff in Hc. exact Hc.
      + split; [exact Ttl | lia].
  Qed.
End D.

Section T.
  Variable md5 : bytes -> bytes.
  Variable rx : N -> bytes -> option (list (Z * Z)).
  Variable cfg : config.
  Variable fs : N -> bool.

  (* C13: a server's reply is passed on only if its TTL (looked up after the server's rewriteIn) is not exceeded *)
  Theorem reply_ttl_alive st s buf now rnd c p :
    In (OReply c p) (snd (replyh md5 rx cfg fs st s buf now rnd)) ->
    (exists h r, slot_of st s (nth 1 buf 0) = Some h /\ get_rq st h = Some r /\ rq_replybuf r = Some p) \/
    exists h r msg a1 ttlres a2,
      slot_of st s (nth 1 buf 0) = Some h /\ get_rq st h = Some r /\
      buf2radmsg md5 buf (sc_secret (srvconf_of cfg s)) (match rq_msg r with Some m => Some (m_auth m) | None => None end) = Some msg /\
      dorewrite rx (m_attrs msg) (sc_rwin (srvconf_of cfg s)) = Some a1 /\
      checkttl (o_ttl0 (cf_opt cfg)) (o_ttl1 (cf_opt cfg)) a1 = (ttlres, a2) /\ ttlres <> 0.
  Proof.
    intro H. destruct (replyh_delivered md5 rx cfg fs _ _ _ _ _ _ _ H) as [(h & r & Hs & Hr & _ & Hb) | D].
    - left. exists h, r. repeat split; assumption.
    - right. destruct D. exists dl_h, dl_r, dl_msg, dl_a1, dl_ttlres, dl_a2. destruct dl_ttl as [T1 T2]. repeat split; assumption.
  Qed.
End T.
