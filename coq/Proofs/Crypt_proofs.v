From RSP Require Import Base Consts Crypt Spec_C03 BaseLemmas.
From Coq Require Import ZifyBool ZifyNat ZifyN.
Local Open Scope N_scope.
Ltac Zify.zify_post_hook ::= Z.div_mod_to_equations.

Lemma xor_bytes_length a b : length (xor_bytes a b) = Nat.min (length a) (length b).
Proof. revert b. induction a as [|x a IH]; intros [|y b]; simpl; auto. Qed.

Lemma xor_bytes_invol h b : (length b <= length h)%nat -> xor_bytes h (xor_bytes h b) = b.
Proof.
  revert b. induction h as [|x h IH]; intros [|y b] H; simpl in *; try reflexivity; try lia.
  f_equal; [|apply IH; lia].
  rewrite <- N.lxor_assoc, N.lxor_nilpotent, N.lxor_0_l. reflexivity.
Qed.

Lemma chunks_f_S fuel l : l <> [] -> chunks_f (S fuel) l = firstn 16 l :: chunks_f fuel (skipn 16 l).
Proof. destruct l; [congruence | reflexivity]. Qed.

Lemma firstn_app_exact {A} n (b r : list A) : length b = n -> firstn n (b ++ r) = b.
Proof. intros <-. rewrite firstn_app, Nat.sub_diag, firstn_all. simpl. apply app_nil_r. Qed.

Lemma skipn_app_exact {A} n (b r : list A) : length b = n -> skipn n (b ++ r) = r.
Proof. intros <-. rewrite skipn_app, Nat.sub_diag, skipn_all. reflexivity. Qed.

(* chunks16 of a concatenation of 16-byte blocks gives the blocks back *)
Lemma chunks_f_concat bl : forall fuel, blocks_ok bl = true -> (length (concat bl) <= fuel)%nat ->
  chunks_f fuel (concat bl) = bl.
Proof.
  induction bl as [|b bl IH]; intros fuel Hb Hf.
  - simpl. destruct fuel; reflexivity.
  - simpl in Hb. apply andb_true_iff in Hb as [Hl Hr]. apply Nat.eqb_eq in Hl.
    cbn [concat] in *. rewrite app_length in Hf.
    destruct fuel as [|fuel]; [lia|].
    rewrite chunks_f_S.
    2:{ destruct b; [simpl in Hl; lia | discriminate]. }
    rewrite (firstn_app_exact 16 b _ Hl), (skipn_app_exact 16 b _ Hl).
    f_equal. apply IH; [exact Hr|]. lia.
Qed.

Lemma chunks16_concat bl : blocks_ok bl = true -> chunks16 (concat bl) = bl.
Proof. intro H. apply chunks_f_concat; [exact H | lia]. Qed.

Lemma blocks_ok_cons b bl : blocks_ok (b :: bl) = (length b =? 16)%nat && blocks_ok bl.
Proof. reflexivity. Qed.

Lemma chunks_f_blocks_ok : forall fuel l, (length l <= fuel)%nat -> (Nat.modulo (length l) 16 = 0)%nat ->
  blocks_ok (chunks_f fuel l) = true /\ concat (chunks_f fuel l) = l.
Proof.
  induction fuel as [|fuel IH]; intros l Hf Hm.
  - destruct l; simpl in *; [split; reflexivity | lia].
  - destruct (list_eq_dec N.eq_dec l []) as [->|Hne]; [split; reflexivity|].
    rewrite chunks_f_S by exact Hne.
    assert (Hlen : (16 <= length l)%nat).
    { assert (length l <> 0)%nat by (destruct l; [congruence | simpl; lia]). lia. }
    assert (Hsk : length (skipn 16 l) = (length l - 16)%nat) by apply skipn_length.
    destruct (IH (skipn 16 l)) as [H1 H2].
    + rewrite Hsk. lia.
    + rewrite Hsk. lia.
    + split.
      * rewrite blocks_ok_cons, H1, firstn_length_le by lia. reflexivity.
      * cbn [concat]. rewrite H2. apply firstn_skipn.
Qed.

Section P.
  Variable md5 : bytes -> bytes.
  Hypothesis md5_len : forall x, length (md5 x) = 16%nat.

  (* the model's two modes are the RFC's encryption and decryption *)
  Lemma pwd_blocks_enc S iv salt p :
    pwd_blocks md5 true S iv salt p =
    match p with [] => [] | p1 :: r => let c1 := xor_bytes (md5 (S ++ iv ++ salt)) p1 in c1 :: rfc_encrypt md5 S c1 r end.
  Proof.
    destruct p as [|p1 r]; [reflexivity|]. cbn [pwd_blocks]. cbv zeta. f_equal.
    generalize (xor_bytes (md5 (S ++ iv ++ salt)) p1). induction r as [|p2 r IH]; intro c; [reflexivity|].
    cbn [pwd_blocks rfc_encrypt]. rewrite app_nil_r. cbv zeta. f_equal. apply IH.
  Qed.

  Lemma pwd_blocks_dec S iv salt c :
    pwd_blocks md5 false S iv salt c =
    match c with [] => [] | c1 :: r => xor_bytes (md5 (S ++ iv ++ salt)) c1 :: rfc_decrypt md5 S c1 r end.
  Proof.
    destruct c as [|c1 r]; [reflexivity|]. cbn [pwd_blocks]. cbv zeta. f_equal.
    revert c1. induction r as [|c2 r IH]; intro c1; [reflexivity|].
    cbn [pwd_blocks rfc_decrypt]. rewrite app_nil_r. cbv zeta. f_equal. apply IH.
  Qed.

  Lemma rfc_encrypt_blocks_ok S iv p : blocks_ok p = true -> blocks_ok (rfc_encrypt md5 S iv p) = true.
  Proof.
    revert iv. induction p as [|p1 r IH]; intros iv H; [reflexivity|].
    simpl in H. apply andb_true_iff in H as [H1 Hr]. apply Nat.eqb_eq in H1.
    cbn [rfc_encrypt]. cbv zeta. rewrite blocks_ok_cons.
    rewrite IH by exact Hr. rewrite xor_bytes_length, md5_len, H1. reflexivity.
  Qed.

  Lemma rfc_decrypt_blocks_ok S iv c : blocks_ok c = true -> blocks_ok (rfc_decrypt md5 S iv c) = true.
  Proof.
    revert iv. induction c as [|c1 r IH]; intros iv H; [reflexivity|].
    simpl in H. apply andb_true_iff in H as [H1 Hr]. apply Nat.eqb_eq in H1.
    cbn [rfc_decrypt]. rewrite blocks_ok_cons.
    rewrite IH by exact Hr. rewrite xor_bytes_length, md5_len, H1. reflexivity.
  Qed.

  (* decryption inverts encryption, for every number of blocks *)
  Lemma rfc_decrypt_encrypt S iv p : blocks_ok p = true -> rfc_decrypt md5 S iv (rfc_encrypt md5 S iv p) = p.
  Proof.
    revert iv. induction p as [|p1 r IH]; intros iv H; [reflexivity|].
    simpl in H. apply andb_true_iff in H as [H1 Hr]. apply Nat.eqb_eq in H1.
    cbn [rfc_encrypt]. cbv zeta. cbn [rfc_decrypt]. rewrite IH by exact Hr.
    rewrite xor_bytes_invol by (rewrite md5_len; lia). reflexivity.
  Qed.

  Lemma rfc_encrypt_decrypt S iv c : blocks_ok c = true -> rfc_encrypt md5 S iv (rfc_decrypt md5 S iv c) = c.
  Proof.
    revert iv. induction c as [|c1 r IH]; intros iv H; [reflexivity|].
    simpl in H. apply andb_true_iff in H as [H1 Hr]. apply Nat.eqb_eq in H1.
    cbn [rfc_decrypt rfc_encrypt]. cbv zeta.
    rewrite xor_bytes_invol by (rewrite md5_len; lia). rewrite IH by exact Hr. reflexivity.
  Qed.

  Definition dec (S iv v : bytes) : bytes := concat (rfc_decrypt md5 S iv (chunks16 v)).
  Definition enc (S iv v : bytes) : bytes := concat (rfc_encrypt md5 S iv (chunks16 v)).

  Lemma pwdcrypt_enc v S auth salt : pwdcrypt md5 true v S auth salt = enc S (auth ++ salt) v.
  Proof.
    unfold pwdcrypt, enc. rewrite pwd_blocks_enc. destruct (chunks16 v) as [|p1 r]; reflexivity.
  Qed.
  Lemma pwdcrypt_dec v S auth salt : pwdcrypt md5 false v S auth salt = dec S (auth ++ salt) v.
  Proof.
    unfold pwdcrypt, dec. rewrite pwd_blocks_dec. destruct (chunks16 v) as [|p1 r]; reflexivity.
  Qed.

  Lemma chunks16_ok v : (Nat.modulo (length v) 16 = 0)%nat -> blocks_ok (chunks16 v) = true /\ concat (chunks16 v) = v.
  Proof. intro H. apply chunks_f_blocks_ok; [lia | exact H]. Qed.

  Lemma concat_blocks_length bl : blocks_ok bl = true -> length (concat bl) = (16 * length bl)%nat.
  Proof.
    induction bl as [|b bl IH]; intro H; [reflexivity|]. simpl in H. apply andb_true_iff in H as [H1 Hr].
    apply Nat.eqb_eq in H1. simpl concat. rewrite app_length, IH by exact Hr. simpl length. lia.
  Qed.

  Lemma rfc_encrypt_length S iv p : length (rfc_encrypt md5 S iv p) = length p.
  Proof. revert iv. induction p as [|p1 r IH]; intro iv; simpl; [reflexivity|]. rewrite IH. reflexivity. Qed.
  Lemma rfc_decrypt_length S iv c : length (rfc_decrypt md5 S iv c) = length c.
  Proof. revert iv. induction c as [|c1 r IH]; intro iv; simpl; [reflexivity|]. rewrite IH. reflexivity. Qed.

  Lemma dec_enc S iv v : (Nat.modulo (length v) 16 = 0)%nat -> dec S iv (enc S iv v) = v.
  Proof.
    intro H. destruct (chunks16_ok v H) as [Hb Hc]. unfold dec, enc.
    rewrite chunks16_concat by (apply rfc_encrypt_blocks_ok; exact Hb).
    rewrite rfc_decrypt_encrypt by exact Hb. exact Hc.
  Qed.

  Lemma enc_length S iv v : (Nat.modulo (length v) 16 = 0)%nat -> length (enc S iv v) = length v.
  Proof.
    intro H. destruct (chunks16_ok v H) as [Hb Hc]. unfold enc.
    rewrite concat_blocks_length by (apply rfc_encrypt_blocks_ok; exact Hb).
    rewrite rfc_encrypt_length. rewrite <- Hc at 2. rewrite concat_blocks_length by exact Hb. reflexivity.
  Qed.
  Lemma dec_length S iv v : (Nat.modulo (length v) 16 = 0)%nat -> length (dec S iv v) = length v.
  Proof.
    intro H. destruct (chunks16_ok v H) as [Hb Hc]. unfold dec.
    rewrite concat_blocks_length by (apply rfc_decrypt_blocks_ok; exact Hb).
    rewrite rfc_decrypt_length. rewrite <- Hc at 2. rewrite concat_blocks_length by exact Hb. reflexivity.
  Qed.

  Lemma pwd_len_ok_mod (v : bytes) : pwd_len_ok (nlen v) = true ->
    (Nat.modulo (length v) 16 = 0)%nat /\ (16 <= length v <= 128)%nat.
  Proof.
    unfold pwd_len_ok, nlen, Consts.PWD_MIN, Consts.PWD_MAX, Consts.PWD_BLOCK. intro H.
    apply negb_true_iff in H. apply orb_false_iff in H as [H H3]. apply orb_false_iff in H as [H1 H2].
    apply negb_false_iff in H3. apply N.eqb_eq in H3. apply N.ltb_ge in H1, H2.
    split; [|lia].
    assert (E : N.of_nat (length v mod 16) = 0).
    { rewrite Nat2N.inj_mod. exact H3. }
    lia.
  Qed.

  (* C03, User-Password / Tunnel-Password: re-encryption preserves the plaintext and the length,
     and is refused exactly for invalid lengths *)
  Theorem pwdrecrypt_preserves v os ns oa na osalt nsalt :
    match pwdrecrypt md5 v os ns oa na osalt nsalt with
    | Some v' => pwd_len_ok (nlen v) = true /\ length v' = length v /\
                 dec ns (na ++ nsalt) v' = dec os (oa ++ osalt) v
    | None => pwd_len_ok (nlen v) = false
    end.
  Proof.
    unfold pwdrecrypt. destruct (pwd_len_ok (nlen v)) eqn:G; [|reflexivity].
    destruct (pwd_len_ok_mod v G) as [Hm _].
    rewrite pwdcrypt_dec, pwdcrypt_enc. split; [reflexivity|].
    assert (Hd : (Nat.modulo (length (dec os (oa ++ osalt) v)) 16 = 0)%nat) by (rewrite dec_length; assumption).
    split.
    - rewrite enc_length by exact Hd. apply dec_length. exact Hm.
    - apply dec_enc. exact Hd.
  Qed.

  Lemma mppe_len_ok_mod (v : bytes) : mppe_len_ok (nlen v) = true ->
    (2 <= length v)%nat /\ (Nat.modulo (length (skipn 2 v)) 16 = 0)%nat.
  Proof.
    unfold mppe_len_ok, nlen, Consts.MPPE_MIN. intro H. apply andb_true_iff in H as [H1 H2].
    apply negb_true_iff in H1. apply N.ltb_ge in H1. apply N.eqb_eq in H2.
    split; [lia|]. rewrite skipn_length.
    assert (E : N.of_nat ((length v - 2) mod 16) = 0).
    { rewrite Nat2N.inj_mod, Nat2N.inj_sub. exact H2. }
    lia.
  Qed.

  (* C03, MS-MPPE keys: the salt is kept, the key decrypts to the same plaintext *)
  Theorem msmpprecrypt_preserves v os ns oa na :
    match msmpprecrypt md5 v os ns oa na with
    | Some v' => mppe_len_ok (nlen v) = true /\ length v' = length v /\ firstn 2 v' = firstn 2 v /\
                 dec ns (na ++ firstn 2 v') (skipn 2 v') = dec os (oa ++ firstn 2 v) (skipn 2 v)
    | None => mppe_len_ok (nlen v) = false
    end.
  Proof.
    unfold msmpprecrypt. destruct (mppe_len_ok (nlen v)) eqn:G; [|reflexivity].
    destruct (mppe_len_ok_mod v G) as [H2 Hm].
    unfold msmppencrypt, msmppdecrypt. rewrite pwdcrypt_dec, pwdcrypt_enc.
    set (salt := firstn 2 v). set (key := skipn 2 v).
    assert (Hs : length salt = 2%nat) by (subst salt; apply firstn_length_le; lia).
    assert (Hd : (Nat.modulo (length (dec os (oa ++ salt) key)) 16 = 0)%nat) by (rewrite dec_length; assumption).
    split; [reflexivity|]. split; [|split].
    - rewrite app_length, enc_length by exact Hd. rewrite dec_length by exact Hm.
      subst key. rewrite skipn_length. lia.
    - apply firstn_app_exact. exact Hs.
    - rewrite (firstn_app_exact 2 salt _ Hs), (skipn_app_exact 2 salt _ Hs).
      apply dec_enc. exact Hd.
  Qed.
End P.

Section Q.
  Variable md5 : bytes -> bytes.
  Hypothesis md5_len : forall x, length (md5 x) = 16%nat.

  Lemma pwd_valid_len_eq n : pwd_valid_len n = pwd_len_ok n.
  Proof.
    unfold pwd_valid_len, pwd_len_ok, Consts.PWD_MIN, Consts.PWD_MAX, Consts.PWD_BLOCK. lia.
  Qed.

  Lemma mppe_valid_len_eq n : mppe_valid_len n = mppe_len_ok n.
  Proof.
    unfold mppe_valid_len, mppe_len_ok, Consts.MPPE_MIN. lia.
  Qed.

  Theorem pwdrecrypt_spec v os ns oa na osalt nsalt :
    spec_pwd_recrypt md5 v os ns oa na osalt nsalt (pwdrecrypt md5 v os ns oa na osalt nsalt) = true.
  Proof.
    pose proof (pwdrecrypt_preserves md5 md5_len v os ns oa na osalt nsalt) as H.
    unfold spec_pwd_recrypt. rewrite pwd_valid_len_eq.
    destruct (pwdrecrypt md5 v os ns oa na osalt nsalt) as [v'|].
    - destruct H as (G & L & D). rewrite G, L, Nat.eqb_refl. simpl.
      apply beq_bytes_eq. exact D.
    - rewrite H. reflexivity.
  Qed.

  Theorem msmpprecrypt_spec v os ns oa na :
    spec_mppe_recrypt md5 v os ns oa na (msmpprecrypt md5 v os ns oa na) = true.
  Proof.
    pose proof (msmpprecrypt_preserves md5 md5_len v os ns oa na) as H.
    unfold spec_mppe_recrypt. rewrite mppe_valid_len_eq.
    destruct (msmpprecrypt md5 v os ns oa na) as [v'|].
    - destruct H as (G & L & F & D). rewrite F in D. rewrite G, L, Nat.eqb_refl, F, beq_bytes_refl. simpl.
      apply beq_bytes_eq. exact D.
    - rewrite H. reflexivity.
  Qed.
End Q.
