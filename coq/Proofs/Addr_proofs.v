From RSP Require Import Base Consts Addr Spec_C14 BaseLemmas.
From Coq Require Import ZifyBool ZifyNat ZifyN.
Local Open Scope N_scope.
Ltac Zify.zify_post_hook ::= Z.div_mod_to_equations.

(* ------------------------------------------------------------------ finite sweeps over bytes *)
Definition all_bytes : list N := map N.of_nat (seq 0 256).

Lemma all_bytes_complete x : x < 256 -> In x all_bytes.
Proof.
  intro H. unfold all_bytes. apply in_map_iff. exists (N.to_nat x). split; [lia|]. apply in_seq. lia.
Qed.

(* the masked comparison of the code = equality of the r leading bits, for all bytes and r = 1..7 *)
Definition mask_check : bool :=
  forallb (fun x => forallb (fun y => forallb (fun r =>
    Bool.eqb (N.land x (nth r Consts.prefix_mask 0) =? N.land y (nth r Consts.prefix_mask 0))
             (beq_bits (firstn r (byte_bits x)) (firstn r (byte_bits y)))) [1;2;3;4;5;6;7]%nat) all_bytes) all_bytes.
Lemma mask_check_ok : mask_check = true.
Proof. vm_compute. reflexivity. Qed.
(* the same sweep stated on the unfolded term, so that using it needs no conversion through the constant *)
Lemma mask_sweep :
  forallb (fun x => forallb (fun y => forallb (fun r =>
    Bool.eqb (N.land x (nth r Consts.prefix_mask 0) =? N.land y (nth r Consts.prefix_mask 0))
             (beq_bits (firstn r (byte_bits x)) (firstn r (byte_bits y)))) [1;2;3;4;5;6;7]%nat) all_bytes) all_bytes = true.
Proof. vm_compute. reflexivity. Qed.

Lemma forallb3 {A B C} (P : A -> B -> C -> bool) la lb lc :
  forallb (fun x => forallb (fun y => forallb (fun r => P x y r) lc) lb) la = true ->
  forall x y r, In x la -> In y lb -> In r lc -> P x y r = true.
Proof.
  intros H x y r Hx Hy Hr. rewrite forallb_forall in H. specialize (H x Hx).
  rewrite forallb_forall in H. specialize (H y Hy). rewrite forallb_forall in H. exact (H r Hr).
Qed.

Lemma mask_fact x y r : x < 256 -> y < 256 -> (1 <= r <= 7)%nat ->
  (N.land x (nth r Consts.prefix_mask 0) =? N.land y (nth r Consts.prefix_mask 0)) =
  beq_bits (firstn r (byte_bits x)) (firstn r (byte_bits y)).
Proof.
  intros Hx Hy Hr. assert (I : In r [1;2;3;4;5;6;7]%nat) by (cbn [In]; lia).
  apply eqb_prop.
  exact (forallb3 (fun x y r => Bool.eqb (N.land x (nth r Consts.prefix_mask 0) =? N.land y (nth r Consts.prefix_mask 0))
                                 (beq_bits (firstn r (byte_bits x)) (firstn r (byte_bits y)))) _ _ _ mask_sweep x y r
           (all_bytes_complete x Hx) (all_bytes_complete y Hy) I).
Qed.

(* byte_bits is injective on bytes *)
Definition bits_check : bool :=
  forallb (fun x => forallb (fun y => Bool.eqb (x =? y) (beq_bits (byte_bits x) (byte_bits y))) all_bytes) all_bytes.
Lemma bits_check_ok : bits_check = true.
Proof. vm_compute. reflexivity. Qed.
Lemma bits_fact x y : x < 256 -> y < 256 -> (x =? y) = beq_bits (byte_bits x) (byte_bits y).
Proof.
  intros Hx Hy. pose proof bits_check_ok as M. unfold bits_check in M.
  rewrite forallb_forall in M. specialize (M x (all_bytes_complete x Hx)).
  rewrite forallb_forall in M. specialize (M y (all_bytes_complete y Hy)). apply eqb_prop in M. exact M.
Qed.

(* ------------------------------------------------------------------ bit strings *)
Lemma beq_bits_app a b c d : length a = length c -> beq_bits (a ++ b) (c ++ d) = beq_bits a c && beq_bits b d.
Proof.
  revert c. induction a as [|x a IH]; intros [|y c] H; simpl in *; try lia; [reflexivity|].
  rewrite IH by lia. rewrite andb_assoc. reflexivity.
Qed.

Lemma byte_bits_length x : length (byte_bits x) = 8%nat.
Proof. reflexivity. Qed.

Lemma bits_length a : length (bits a) = (8 * length a)%nat.
Proof. induction a as [|x a IH]; [reflexivity|]. unfold bits in *. cbn [map concat]. rewrite app_length, byte_bits_length, IH. cbn [length]. lia. Qed.

Lemma bits_beq a b : wf_bytes a = true -> wf_bytes b = true -> length a = length b ->
  beq_bits (bits a) (bits b) = beq_bytes a b.
Proof.
  revert b. induction a as [|x a IH]; intros [|y b] Wa Wb L; simpl in L; try lia; [reflexivity|].
  rewrite wf_bytes_cons in Wa, Wb. apply andb_true_iff in Wa as [Hx Wa]. apply andb_true_iff in Wb as [Hy Wb].
  unfold is_byte in Hx, Hy. apply N.ltb_lt in Hx, Hy.
  unfold bits. cbn [map concat]. rewrite beq_bits_app by reflexivity. fold (bits a) (bits b).
  rewrite IH by (try assumption; lia). rewrite <- bits_fact by assumption.
  unfold beq_bytes. cbn [length combine forallb fst snd Nat.eqb].
  destruct (length a =? length b)%nat; cbn [andb]; [reflexivity | apply andb_false_r].
Qed.

(* the first 8*l + r bits of a byte string *)
Lemma firstn_bits a l r : (l < length a)%nat -> (r < 8)%nat ->
  firstn (8 * l + r) (bits a) = bits (firstn l a) ++ firstn r (byte_bits (nth l a 0)).
Proof.
  revert l. induction a as [|x a IH]; intros l Hl Hr; [simpl in Hl; lia|].
  destruct l as [|l].
  - cbn [firstn bits map concat app nth]. replace (8 * 0 + r)%nat with r by lia.
    unfold bits. cbn [map concat]. rewrite firstn_app. rewrite byte_bits_length.
    replace (r - 8)%nat with 0%nat by lia. cbn [firstn]. rewrite app_nil_r. reflexivity.
  - cbn [firstn nth]. unfold bits at 1 2. cbn [map concat]. fold (bits a) (bits (firstn l a)).
    replace (8 * S l + r)%nat with (8 + (8 * l + r))%nat by lia.
    rewrite firstn_app_2 with (l1 := byte_bits x) by reflexivity || idtac.
    all: try (rewrite <- app_assoc; f_equal; apply IH; simpl in Hl; lia).
Qed.

(* ------------------------------------------------------------------ prefixmatch = "leading bits equal" *)
Lemma nth_wf l a : wf_bytes a = true -> nth l a 0 < 256.
Proof.
  revert l. induction a as [|x a IH]; intros l W; [destruct l; simpl; lia|].
  rewrite wf_bytes_cons in W. apply andb_true_iff in W as [Hx W]. unfold is_byte in Hx.
  destruct l; simpl; [lia | apply IH; exact W].
Qed.

Theorem prefixmatch_spec a b len :
  wf_bytes a = true -> wf_bytes b = true -> length a = length b -> len < 8 * nlen a ->
  prefixmatch a b len = same_leading_bits a b len.
Proof.
  intros Wa Wb L Hlen. unfold prefixmatch, same_leading_bits, nlen in *.
  set (l := N.to_nat (len / 8)). set (r := len mod 8).
  assert (Hl : (l < length a)%nat) by (subst l; lia).
  assert (Hr : (N.to_nat r < 8)%nat) by (subst r; lia).
  assert (Hn : N.to_nat len = (8 * l + N.to_nat r)%nat) by (subst l r; lia).
  rewrite Hn. rewrite !firstn_bits by (try assumption; lia).
  assert (HLa : length (firstn l a) = l) by (apply firstn_length_le; lia).
  assert (HLb : length (firstn l b) = l) by (apply firstn_length_le; lia).
  rewrite beq_bits_app by (rewrite !bits_length, HLa, HLb; reflexivity).
  rewrite bits_beq; [| apply wf_bytes_firstn; assumption | apply wf_bytes_firstn; assumption | rewrite HLa, HLb; reflexivity].
  destruct (beq_bytes (firstn l a) (firstn l b)) eqn:E.
  - rewrite andb_false_r. cbn [andb negb].
    destruct (N.eqb_spec r 0) as [R0|R0].
    + rewrite R0. reflexivity.
    + apply mask_fact; [apply nth_wf; exact Wa | apply nth_wf; exact Wb | lia].
  - cbn [negb andb]. destruct (Nat.eqb_spec l 0) as [L0|L0]; [|reflexivity].
    rewrite L0 in E. discriminate.
Qed.

(* ------------------------------------------------------------------ host-list membership *)
Definition addr_len (f : fam) : nat := match f with V4 => 4%nat | V6 => 16%nat end.
Definition hp_ok (h : hostport) : bool :=
  plen_ok h && wf_bytes (hp_addr h) && (length (hp_addr h) =? addr_len (hp_fam h))%nat.
Definition src_ok (s : source) : bool := wf_bytes (src_addr s) && (length (src_addr s) =? addr_len (src_fam s))%nat.

Lemma normalize_ok s : src_ok s = true -> src_ok (normalize s) = true.
Proof.
  unfold src_ok, normalize. intro H. apply andb_true_iff in H as [W L]. apply Nat.eqb_eq in L.
  destruct (src_fam s) eqn:F; [rewrite F, W; simpl; rewrite L; reflexivity|].
  destruct (v4mapped (src_addr s)).
  - cbn [src_fam src_addr]. rewrite wf_bytes_skipn by exact W. rewrite skipn_length, L. reflexivity.
  - rewrite F, W. simpl. rewrite L. reflexivity.
Qed.

Theorem entry_matches_spec h s checkport : hp_ok h = true -> src_ok s = true ->
  entry_matches h s checkport = spec_entry h s checkport.
Proof.
  intros Hh Hs. apply normalize_ok in Hs. unfold entry_matches, spec_entry.
  set (s' := normalize s) in *.
  unfold hp_ok in Hh. apply andb_true_iff in Hh as [Hh HL]. apply andb_true_iff in Hh as [HP HW].
  apply Nat.eqb_eq in HL. unfold src_ok in Hs. apply andb_true_iff in Hs as [SW SL]. apply Nat.eqb_eq in SL.
  unfold plen_ok in HP.
  destruct (fam_eqb (hp_fam h) (src_fam s')) eqn:F; cbn [andb].
  2:{ destruct (full_len (hp_fam h) <=? hp_plen h); reflexivity. }
  assert (Hfam : hp_fam h = src_fam s') by (destruct (hp_fam h), (src_fam s'); simpl in F; congruence).
  destruct (N.eqb_spec (hp_plen h) 255) as [P|P].
  - rewrite P. cbn [orb]. replace (full_len (hp_fam h) <=? 255) with true by (destruct (hp_fam h); reflexivity). reflexivity.
  - cbn [orb] in *. apply N.leb_le in HP.
    destruct (N.eqb_spec (hp_plen h) (full_len (hp_fam h))) as [Q|Q].
    + rewrite Q, N.leb_refl. reflexivity.
    + replace (full_len (hp_fam h) <=? hp_plen h) with false by lia.
      apply prefixmatch_spec; try assumption.
      * rewrite SL, HL, Hfam. reflexivity.
      * unfold nlen. rewrite SL, <- Hfam. destruct (hp_fam h); simpl in *; lia.
Qed.

Lemma existsb_ext_in {A} (f g : A -> bool) l : (forall x, In x l -> f x = g x) -> existsb f l = existsb g l.
Proof.
  induction l as [|x l IH]; intro H; [reflexivity|]. cbn [existsb]. rewrite (H x (or_introl eq_refl)), IH; [reflexivity|].
  intros y Hy. apply H. right. exact Hy.
Qed.

Definition blocks_ok (blocks : list peerblock) : bool := forallb (fun b => forallb hp_ok (b_hosts b)) blocks.

(* ------------------------------------------------------------------ first matching block *)
Theorem find_conf_spec blocks ty s checkport : blocks_ok blocks = true -> src_ok s = true ->
  spec_find blocks ty s checkport (find_conf blocks ty s checkport) = true.
Proof.
  intros HB HS.
  assert (EQ : forall b, In b blocks ->
            ((b_type b =? ty) && addressmatches (b_hosts b) s checkport) =
            ((b_type b =? ty) && existsb (fun h => spec_entry h s checkport) (b_hosts b))).
  { intros b Hb. f_equal. unfold addressmatches. apply existsb_ext_in. intros h Hh.
    apply entry_matches_spec; [|exact HS]. unfold blocks_ok in HB. rewrite forallb_forall in HB.
    specialize (HB b Hb). rewrite forallb_forall in HB. apply HB. exact Hh. }
  unfold find_conf.
  assert (G : forall pre rest, blocks = pre ++ rest ->
            forallb (fun b' => negb ((b_type b' =? ty) && existsb (fun h => spec_entry h s checkport) (b_hosts b'))) pre = true ->
            spec_find blocks ty s checkport (find_conf_from rest (length pre) ty s checkport) = true).
  { intros pre rest. revert pre. induction rest as [|b r IH]; intros pre E Hpre.
    - cbn [find_conf_from spec_find]. rewrite E, app_nil_r. exact Hpre.
    - cbn [find_conf_from].
      assert (Hb : In b blocks) by (rewrite E; apply in_or_app; right; left; reflexivity).
      rewrite (EQ b Hb).
      destruct ((b_type b =? ty) && existsb (fun h => spec_entry h s checkport) (b_hosts b)) eqn:M.
      + cbn [spec_find]. rewrite E. rewrite nth_error_app2 by lia. rewrite Nat.sub_diag. cbn [nth_error].
        rewrite M. cbn [andb]. rewrite firstn_app, Nat.sub_diag, firstn_all. cbn [firstn]. rewrite app_nil_r. exact Hpre.
      + replace (S (length pre)) with (length (pre ++ [b])) by (rewrite app_length; simpl; lia).
        apply IH; [rewrite <- app_assoc; exact E|].
        rewrite forallb_app, Hpre. cbn [forallb]. rewrite M. reflexivity. }
  apply (G [] blocks eq_refl eq_refl).
Qed.
