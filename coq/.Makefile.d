Gen/Consts.vo Gen/Consts.glob Gen/Consts.v.beautified Gen/Consts.required_vo: Gen/Consts.v 
Gen/Consts.vio: Gen/Consts.v 
Gen/Consts.vos Gen/Consts.vok Gen/Consts.required_vos: Gen/Consts.v 
Model/Base.vo Model/Base.glob Model/Base.v.beautified Model/Base.required_vo: Model/Base.v 
Model/Base.vio: Model/Base.v 
Model/Base.vos Model/Base.vok Model/Base.required_vos: Model/Base.v 
Model/Ttl.vo Model/Ttl.glob Model/Ttl.v.beautified Model/Ttl.required_vo: Model/Ttl.v Model/Base.vo Gen/Consts.vo
Model/Ttl.vio: Model/Ttl.v Model/Base.vio Gen/Consts.vio
Model/Ttl.vos Model/Ttl.vok Model/Ttl.required_vos: Model/Ttl.v Model/Base.vos Gen/Consts.vos
Spec/Spec_C13.vo Spec/Spec_C13.glob Spec/Spec_C13.v.beautified Spec/Spec_C13.required_vo: Spec/Spec_C13.v Model/Base.vo Gen/Consts.vo Model/Ttl.vo
Spec/Spec_C13.vio: Spec/Spec_C13.v Model/Base.vio Gen/Consts.vio Model/Ttl.vio
Spec/Spec_C13.vos Spec/Spec_C13.vok Spec/Spec_C13.required_vos: Spec/Spec_C13.v Model/Base.vos Gen/Consts.vos Model/Ttl.vos
Proofs/BaseLemmas.vo Proofs/BaseLemmas.glob Proofs/BaseLemmas.v.beautified Proofs/BaseLemmas.required_vo: Proofs/BaseLemmas.v Model/Base.vo
Proofs/BaseLemmas.vio: Proofs/BaseLemmas.v Model/Base.vio
Proofs/BaseLemmas.vos Proofs/BaseLemmas.vok Proofs/BaseLemmas.required_vos: Proofs/BaseLemmas.v Model/Base.vos
Proofs/Ttl_proofs.vo Proofs/Ttl_proofs.glob Proofs/Ttl_proofs.v.beautified Proofs/Ttl_proofs.required_vo: Proofs/Ttl_proofs.v Model/Base.vo Gen/Consts.vo Model/Ttl.vo Spec/Spec_C13.vo Proofs/BaseLemmas.vo
Proofs/Ttl_proofs.vio: Proofs/Ttl_proofs.v Model/Base.vio Gen/Consts.vio Model/Ttl.vio Spec/Spec_C13.vio Proofs/BaseLemmas.vio
Proofs/Ttl_proofs.vos Proofs/Ttl_proofs.vok Proofs/Ttl_proofs.required_vos: Proofs/Ttl_proofs.v Model/Base.vos Gen/Consts.vos Model/Ttl.vos Spec/Spec_C13.vos Proofs/BaseLemmas.vos
Props/Properties_C13.vo Props/Properties_C13.glob Props/Properties_C13.v.beautified Props/Properties_C13.required_vo: Props/Properties_C13.v Model/Base.vo Gen/Consts.vo Model/Ttl.vo Spec/Spec_C13.vo Proofs/Ttl_proofs.vo
Props/Properties_C13.vio: Props/Properties_C13.v Model/Base.vio Gen/Consts.vio Model/Ttl.vio Spec/Spec_C13.vio Proofs/Ttl_proofs.vio
Props/Properties_C13.vos Props/Properties_C13.vok Props/Properties_C13.required_vos: Props/Properties_C13.v Model/Base.vos Gen/Consts.vos Model/Ttl.vos Spec/Spec_C13.vos Proofs/Ttl_proofs.vos
