#!/usr/bin/env python3
import sys
lines=open(sys.argv[1]).read().splitlines()
i1=lines.index('# implementation:'); 
i2=[i for i,l in enumerate(lines) if l.startswith('# model')][0]
imp=[l[2:] for l in lines[i1+1:i2]]
mod=[l[2:] for l in lines[i2+1:] if not l.startswith('# spec')]
imp=[l for l in imp if l.startswith('obs')]
mod=[l for l in mod if l.startswith('obs')]
W=int(sys.argv[2]) if len(sys.argv)>2 else 300
for k,(a,b) in enumerate(zip(imp,mod)):
    if a!=b:
        print('IMPL ',a[:W]); print('MODEL',b[:W]); break
print(len(imp),len(mod))
for l in lines:
    if l.startswith('op ') or l.startswith('cfg'): print(l[:W])
