#!/usr/bin/env python3
"""writes MANIFEST.json from the table below (one entry per claimed property)"""
import json, os
V = os.path.dirname(os.path.dirname(os.path.abspath(__file__)))
CLAIMS = {}
def claim(pid, text, note, technique, ref):
    CLAIMS[pid] = dict(text=text, note=note, technique=technique, ref=ref)

COMMON_NOTE = ('Trusted: Coq 8.16.1 kernel (vm_compute in finite sweeps, no native_compute, no axioms: Print Assumptions = closed for every theorem); '
               'tools/gen_consts.py; extraction (ExtrOcamlBasic only) + OCaml driver; the C harness (virtual clock, scripted randomness, ASan/UBSan); '
               'the hand-written Gallina model is tied to the C code by the correspondence run only on the generated cases. ')
exec(open(os.path.join(V, 'tools', 'claims.py')).read())

props = [json.loads(l)['id'] for l in open(os.path.join(V, 'properties.jsonl'))]
checks, na = [], []
for pid in props:
    if pid in CLAIMS:
        c = CLAIMS[pid]
        checks.append({
            'property_id': pid,
            'quick_cmd': './check %s --tier quick' % pid,
            'thorough_cmd': './check %s --tier thorough' % pid,
            'evidence_file': 'evidence/%s.json' % pid,
            'replay_cmd_template': './check %s --replay {path}' % pid,
            'engine': 'rocq-model+correspondence',
            'level_claimed': {'category': 'proof', 'text': c['text'], 'design_ref': c['ref']},
            'level_note': COMMON_NOTE + c['note'],
            'technique': c['technique'],
        })
    else:
        na.append({'property_id': pid, 'reason': NOT_YET.get(pid, 'check not built yet in this session (work in progress); the technique applies, see DESIGN.md section 5')})
m = {
    'version': 1,
    'setup_cmd': './check --setup',
    'hooks': {'guard': 'RADSECPROXY_VERIF',
              'enable': 'harness is compiled with -DRADSECPROXY_VERIF from /repo\'s working tree by tools/build_harness.sh; no source hooks are needed (statics reached by #include, environment redirected with -Wl,--wrap)',
              'baseline_off_cmd': 'make -C /repo check', 'source_commits': [], 'add_only': True},
    'engines': [{'name': 'rocq-model+correspondence', 'path': 'check', 'serves_properties': sorted(CLAIMS), 'kind_free_text': 'Coq 8.16 theorems about a Gallina model (coq/), constants regenerated from the C sources, model extracted to OCaml and run against the real C code (harness/) on generated cases; extracted spec predicates evaluated on the implementation output'}],
    'checks': checks,
    'not_applicable': na,
    'notes': 'see DESIGN.md; known_findings.json (committed, never written at run time) lists the genuine defects found: F1-F23 and F25 fixed (each with its fix: commit in /repo; a fixed entry suppresses nothing), F24 (C08, zero-length User-Name) known and not repaired: ./check C08 prints a KNOWN-FINDING line for it and exits 0',
}
json.dump(m, open(os.path.join(V, 'MANIFEST.json'), 'w'), indent=1)
print('claimed:', ' '.join(sorted(CLAIMS)), '| not yet:', ' '.join(x['property_id'] for x in na))
