NOT_YET = {}
claim('C13',
      'Theorem C13_dec: for every byte string of every length the TTL decrement is exactly minus one as an unsigned big-endian integer, refused iff zero before or after; C13_only_ttl_plain: checkttl touches only the TTL value. Correspondence: decttl on all values of length 0..2, boundary patterns, random long values; checkttl/addttlattr on attribute lists with plain and vendor TTL. The theorem covers all 2^32 (and longer) values, which no test enumeration can.',
      'Modelled: decttl, checkttl, attrvalidate, addttlattr, makevendortlv (coq/Model/Ttl.v). Pipeline-level TTL/loop-prevention behaviour is checked by correspondence on radsrv/replyh cases once the Proxy model is in.',
      'Coq induction over byte lists (borrow chain) + differential run of extracted model vs real decttl/checkttl', '5/C13')
claim('C09',
      'Theorem C09_choice: for every list of statically configured servers of any length and every combination of states and unanswered counts, choosesrvconf selects per clauses (a)-(d) and never a failed server; C09_failback. Proved by a loop invariant (bestlostrqs = count of best = minimum so far) - the invariant whose violation was defect F3.',
      'Modelled: choosesrvconf incl. the saturation reset (coq/Model/Choose.v). The reset of lostrqs by replyh is covered by the pipeline cases.',
      'Coq loop-invariant proof over arbitrary server lists + exhaustive/random differential run against the real choosesrvconf', '5/C09')
claim('C03',
      'Theorems C03_pwd_recrypt / C03_mppe_recrypt: for every digest function with 16-byte output, every secret, authenticator, salt and value, re-encryption is accepted exactly for the valid lengths, keeps the length (and salt) and preserves the plaintext under the RFC 2865/2868/2548 ciphers (C03_pwd_is_rfc_enc/dec: the code cipher IS the RFC cipher; C03_rfc_roundtrip). Runtime spec decrypts the implementation output with the extracted RFC cipher.',
      'Modelled: pwdcrypt, pwdrecrypt, msmppencrypt/decrypt, msmpprecrypt (coq/Model/Crypt.v); MD5 is a Section variable (any function with 16-byte output). Placement in the reply pipeline (every MS vendor attribute, Tunnel-Password) is checked by correspondence in the pipeline cases.',
      'Coq proof over an arbitrary digest oracle (induction on blocks) + differential run over all lengths 0..253', '5/C03')
claim('C06',
      'Theorems C06_wf, C06_no_fault, C06_response_auth, C06_msgauth: every packet radmsg2buf produces from a message satisfying msg_ok is well formed (length field = bytes, 20..4096, attributes tile), carries a valid Response/Accounting authenticator and a verifying Message-Authenticator, for every digest oracle. The 4096 bound is read from the source on every run (defect F7 fixed).',
      'Modelled: radmsg2buf, tlv2buf, HMAC-MD5 per RFC 2104 over the MD5 oracle (coq/Model/Packet.v). msg_ok is established by the parser (C05_parse_only_if) and preserved by the pipeline stages (Proxy model).',
      'Coq structural proof of the serializer + differential run (sizes around 4096, all codes)', '5/C06')
claim('C05',
      'Theorem C05_parse_only_if: a byte string becomes an unflagged message only if length field = bytes, attributes tile exactly, Accounting-Request authenticator verifies and every Message-Authenticator verifies (RFC verifiers written independently in Spec_Packet.v), for every digest oracle. Correspondence on valid/mutated packets of all codes.',
      'Modelled: buf2radmsg (coq/Model/Packet.v). Handler-level dispatch (codes, RequireMessageAuthenticator, VerifyEAP, NAK) is covered by the pipeline model.',
      'Coq soundness proof of the parser w.r.t. RFC-level verifiers + differential run on mutated packets', '5/C05')
claim('C04',
      'Theorems C04_parse_only_if, C04_unverifiable_flagged: a reply is parsed unflagged only if its Response Authenticator verifies under the request authenticator and secret and every Message-Authenticator verifies with the request authenticator substituted; acceptance reduces to digest equalities. Correspondence incl. every single-bit corruption of the first 64 bytes of valid replies.',
      'Modelled: buf2radmsg with request authenticator (coq/Model/Packet.v). Slot-state conditions of replyh are covered by the pipeline model.',
      'Coq soundness proof of reply parsing + differential run on bit-flipped replies', '5/C04')
