NOT_YET = {}
claim('C13',
      'Theorem C13_dec: for every byte string of every length the TTL decrement is exactly minus one as an unsigned big-endian integer, refused iff zero before or after; C13_only_ttl_plain: checkttl touches only the TTL value. Correspondence: decttl on all values of length 0..2, boundary patterns, random long values; checkttl/addttlattr on attribute lists with plain and vendor TTL. The theorem covers all 2^32 (and longer) values, which no test enumeration can.',
      'Modelled: decttl, checkttl, attrvalidate, addttlattr, makevendortlv (coq/Model/Ttl.v). Pipeline-level TTL/loop-prevention behaviour is checked by correspondence on radsrv/replyh cases once the Proxy model is in.',
      'Coq induction over byte lists (borrow chain) + differential run of extracted model vs real decttl/checkttl', '5/C13')
claim('C09',
      'Theorem C09_choice: for every list of statically configured servers of any length and every combination of states and unanswered counts, choosesrvconf selects per clauses (a)-(d) and never a failed server; C09_failback. Proved by a loop invariant (bestlostrqs = count of best = minimum so far) - the invariant whose violation was defect F3.',
      'Modelled: choosesrvconf incl. the saturation reset (coq/Model/Choose.v). The reset of lostrqs by replyh is covered by the pipeline cases.',
      'Coq loop-invariant proof over arbitrary server lists + exhaustive/random differential run against the real choosesrvconf', '5/C09')
claim('C03',
      'Theorems C03_pwd_recrypt / C03_mppe_recrypt: for every digest function with 16-byte output, every secret, authenticator, salt and value, re-encryption is accepted exactly for the valid lengths, keeps the length (and salt) and preserves the plaintext under the RFC 2865/2868/2548 ciphers (C03_pwd_is_rfc_enc/dec: the code cipher IS the RFC cipher; C03_rfc_roundtrip). Runtime spec decrypts the implementation output with the extracted RFC cipher.',
      'Modelled: pwdcrypt, pwdrecrypt, msmppencrypt/decrypt, msmpprecrypt (coq/Model/Crypt.v); MD5 is a Section variable (any function with 16-byte output). Placement in the reply pipeline (every MS vendor attribute, Tunnel-Password) is checked by correspondence in the pipeline cases.',
      'Coq proof over an arbitrary digest oracle (induction on blocks) + differential run over all lengths 0..253', '5/C03')
claim('C06',
      'Theorems C06_wf, C06_no_fault, C06_response_auth, C06_msgauth: every packet radmsg2buf produces from a message satisfying msg_ok is well formed (length field = bytes, 20..4096, attributes tile), carries a valid Response/Accounting authenticator and a verifying Message-Authenticator, for every digest oracle. The 4096 bound is read from the source on every run (defect F7 fixed).',
      'Modelled: radmsg2buf, tlv2buf, HMAC-MD5 per RFC 2104 over the MD5 oracle (coq/Model/Packet.v). msg_ok is established by the parser (C05_parse_only_if) and preserved by the pipeline stages (Proxy model).',
      'Coq structural proof of the serializer + differential run (sizes around 4096, all codes)', '5/C06')
claim('C05',
      'Theorem C05_parse_only_if: a byte string becomes an unflagged message only if length field = bytes, attributes tile exactly, Accounting-Request authenticator verifies and every Message-Authenticator verifies (RFC verifiers written independently in Spec_Packet.v), for every digest oracle. Correspondence on valid/mutated packets of all codes.',
      'Modelled: buf2radmsg (coq/Model/Packet.v). Handler-level dispatch (codes, RequireMessageAuthenticator, VerifyEAP, NAK) is covered by the pipeline model.',
      'Coq soundness proof of the parser w.r.t. RFC-level verifiers + differential run on mutated packets', '5/C05')
claim('C04',
      'Theorems C04_parse_only_if, C04_unverifiable_flagged: a reply is parsed unflagged only if its Response Authenticator verifies under the request authenticator and secret and every Message-Authenticator verifies with the request authenticator substituted; acceptance reduces to digest equalities. Correspondence incl. every single-bit corruption of the first 64 bytes of valid replies.',
      'Modelled: buf2radmsg with request authenticator (coq/Model/Packet.v). Slot-state conditions of replyh are covered by the pipeline model.',
      'Coq soundness proof of reply parsing + differential run on bit-flipped replies', '5/C04')
claim('C01',
      'Theorem C01_rewrite_untouched: for every regex engine (arbitrary oracle), every rewrite block and every attribute list, attributes named by no rule come out of dorewrite byte-identical, exactly once and in order, followed only by configured supplement/add attributes. Correspondence: the real dorewrite on random blocks parsed by the real configuration parser, and the whole request pipeline (radsrv: rewriteIn, User-Name rewrite, CHAP-Challenge, authenticator, User-Password, rewriteOut, Message-Authenticator, TTL, sendrq) against the extracted Proxy model on generated configurations and histories.',
      'Modelled: rewrite.c engine (coq/Model/Rewrite.v) and radsrv/sendrq (coq/Model/Proxy.v). The pipeline-level statement (exactly one Enq, attribute composition) is checked by correspondence with the model, not yet proved as a theorem over Proxy.radsrv; regex answers are an oracle (what glibc returned).',
      'Coq proof of the rewrite engine filter/map/append structure + differential run of the real request pipeline against the extracted model', '5/C01')
claim('C02',
      'Correspondence of the real replyh/sendreply (driven after real radsrv and real clientwr threads stepped deterministically) with the extracted Proxy model on generated multi-client histories; runtime specs on the implementation output: reply goes to the originating client, carries its identifier and a Response Authenticator over its original Request Authenticator, User-Name restored, hidden attributes decrypt to the server plaintext. The codec and rewrite theorems (C04/C06/C01) cover the stages; the history-level theorem C02_to_originator is not yet proved (partial).',
      'Modelled: replyh, sendreply, freerqoutdata (coq/Model/Proxy.v). Partial: the state-machine invariant (slot -> request -> originating client) is validated by differential testing only.',
      'differential run of real replyh vs extracted Gallina model + extracted RFC verifiers on the delivered packets; stage theorems from C01/C03/C04/C06', '5/C02')
claim('C14',
      'Theorems C14_prefix (prefixmatch = equality of the leading len bits, via complete vm_compute sweeps of the mask table read from hostport.c lifted by induction), C14_match (host-list membership incl. IPv4-mapped unwrapping, host//32//128 exactness, port for UDP servers), C14_first (first matching block of the transport in configuration order, none => none). Correspondence with the real find_clconf/find_srvconf on host lists parsed by the real parser, sources at every first-differing-bit position (thorough: all prefix lengths 0..32 / 0..128).',
      'Modelled: prefixmatch, _internal_addressmatches, find_conf (coq/Model/Addr.v). Not modelled: the transports\' calls (radudpget, tcpservernew, tlsservernew, dtlslistener) and DNS resolution of non-numeric hosts.',
      'Coq bit-level proof (finite sweep + induction) + differential run against real find_clconf/find_srvconf', '5/C14')
claim('C16',
      'Theorems C16_indep (for every stream and every data-only delivery schedule the packets handed over are exactly frames(stream): independent of segmentation), C16_prefix (for every schedule incl. timeouts/errors/EOF and every handler behaviour the packets handed over are a prefix of frames(stream): whole packets only, nothing after a bad length), C16_idle_at_boundary. Correspondence: the REAL reader loops tcpserverrd/tcpclientrd/tlsserverrd/tlsclientrd run over a scripted poll/read/SSL_read.',
      'Modelled: tcpreadtimeout, radtcpget, sslreadtimeout, radtlsget and the four reader loops (coq/Model/Frame.v). Assumed: read/SSL_read return 1..n bytes in order. DTLS not modelled.',
      'Coq induction over arbitrary delivery schedules + differential run of the real reader loops over scripted sockets', '5/C16')
