#!/usr/bin/env python3
"""apply every seeded change to /repo in turn and run the given checks; prints a table.
usage: seedrun.py [--seeds C01-1,C02-2] [--tier quick] check1 check2 ...   (use 'own' to run the seed's own property check)"""
import sys, os, subprocess, glob, json
V='/verif'
args=sys.argv[1:]
seeds=None; tier='quick'
while args and args[0].startswith('--'):
    if args[0]=='--seeds': seeds=args[1].split(','); args=args[2:]
    elif args[0]=='--tier': tier=args[1]; args=args[2:]
checks=args or ['own']
res={}
for d in sorted(glob.glob(V+'/seeded/*')):
    sid=os.path.basename(d)
    if seeds and sid not in seeds: continue
    patch=os.path.join(d,'patch.diff')
    if not os.path.exists(patch): continue
    subprocess.run(['git','-C','/repo','checkout','--','.'],check=True)
    if os.path.exists(os.path.join(d,'patch.rebased.diff')): patch=os.path.join(d,'patch.rebased.diff')
    r=subprocess.run(['git','-C','/repo','apply',patch],capture_output=True,text=True)
    if r.returncode!=0:
        r=subprocess.run(['patch','-p1','-F3','-s','-d','/repo','-i',patch],capture_output=True,text=True)
    if r.returncode!=0:
        res[sid]={'apply':'FAILED '+(r.stderr+r.stdout).strip()[:80]}; print(sid,res[sid],flush=True)
        subprocess.run(['git','-C','/repo','checkout','--','.']); subprocess.run('rm -f /repo/*.rej /repo/*.orig',shell=True); continue
    row={}
    for c in checks:
        cid = sid.split('-')[0] if c=='own' else c
        if not os.path.exists(os.path.join(V,'gen',cid+'.py')): row[cid]='nocheck'; continue
        p=subprocess.run([V+'/check',cid,'--tier',tier],capture_output=True,text=True,cwd=V)
        v=[l for l in p.stdout.splitlines() if l.startswith('VIOLATION')]
        row[cid]=('CAUGHT '+(v[0].split('replay=')[1].split('/')[-1] if v else '')) if p.returncode==1 else ('missed' if p.returncode==0 else 'rc%d'%p.returncode)
    res[sid]=row
    subprocess.run('rm -f /repo/*.rej /repo/*.orig',shell=True)
    subprocess.run(['git','-C','/repo','checkout','--','.'],check=True)
    print(sid,row,flush=True)
json.dump(res,open(V+'/build/seedrun.json','w'),indent=1)
