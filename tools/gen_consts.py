#!/usr/bin/env python3
"""Translator: regenerates coq/Gen/Consts.v from the CURRENT sources of the repository.

Every numeric constant, enum value and lookup table the Coq model refers to is taken
from the C sources on every run, so the theorems are re-checked against what the code
says now.  A constant that can no longer be found is a hard error (the tie is broken).
usage: gen_consts.py <repo> <out.v>
"""
import re, sys, os

repo = sys.argv[1]
out = sys.argv[2]

def src(name):
    with open(os.path.join(repo, name), encoding='latin-1') as f:
        return f.read()

def strip_comments(s):
    s = re.sub(r'/\*.*?\*/', ' ', s, flags=re.S)
    s = re.sub(r'//[^\n]*', ' ', s)
    return s

defs = {}   # name -> int
order = []

def put(name, val):
    if name not in defs:
        order.append(name)
    defs[name] = int(val)

def evalexpr(e, env):
    e = e.strip()
    e = re.sub(r'\b([A-Za-z_][A-Za-z0-9_]*)\b', lambda m: str(env[m.group(1)]) if m.group(1) in env else m.group(0), e)
    if not re.fullmatch(r'[0-9xXa-fA-F\s\*\+\-\(\)/]+', e):
        raise ValueError(e)
    return int(eval(e))

def defines(fname, wanted_prefixes=None, names=None):
    s = strip_comments(src(fname))
    for m in re.finditer(r'^[ \t]*#[ \t]*define[ \t]+([A-Za-z_][A-Za-z0-9_]*)[ \t]+([^\n]+)$', s, flags=re.M):
        n, e = m.group(1), m.group(2)
        if names is not None and n not in names:
            if not (wanted_prefixes and any(n.startswith(p) for p in wanted_prefixes)):
                continue
        elif names is None and wanted_prefixes and not any(n.startswith(p) for p in wanted_prefixes):
            continue
        try:
            put(n, evalexpr(e, defs))
        except Exception:
            pass

def enum(fname, ename):
    s = strip_comments(src(fname))
    m = re.search(r'enum\s+' + ename + r'\s*\{(.*?)\}', s, flags=re.S)
    if not m:
        sys.exit("gen_consts: enum %s not found in %s" % (ename, fname))
    v = 0
    for item in m.group(1).split(','):
        item = item.strip()
        if not item:
            continue
        if '=' in item:
            n, e = item.split('=')
            v = evalexpr(e, defs)
            n = n.strip()
        else:
            n = item
        put(n, v)
        v += 1

missing = []

class Missing(Exception):
    pass

def need(pattern, fname, what, group=1, flags=re.S):
    """A constant whose defining text can no longer be found is OMITTED from Consts.v: every
    model file that mentions it then fails to compile, so exactly the properties that depend
    on it lose their proof (and no others)."""
    s = strip_comments(src(fname))
    m = re.search(pattern, s, flags)
    if not m:
        missing.append("%s (%s)" % (what, fname))
        raise Missing(what)
    return m.group(group)

def attempt(f):
    try:
        f()
    except Missing:
        pass

def table(pattern, fname, what):
    body = need(pattern, fname, what)
    vals = []
    for x in body.split(','):
        x = x.strip()
        if not x:
            continue
        if re.fullmatch(r"'.'", x):
            vals.append(ord(x[1]))
        else:
            vals.append(int(x, 0))
    return vals

# ---- radmsg.h: all RAD_* defines -------------------------------------------
defines('radmsg.h', wanted_prefixes=['RAD_'])
# ---- radsecproxy.h ------------------------------------------------------------
defines('radsecproxy.h', names={'MAX_REQUESTS', 'MAX_LOSTRQS', 'REQUEST_RETRY_INTERVAL', 'REQUEST_RETRY_COUNT',
                                 'STATUS_SERVER_PERIOD', 'IDLE_TIMEOUT', 'RAD_UDP', 'RAD_TLS', 'RAD_TCP', 'RAD_DTLS',
                                 'RAD_PROTOCOUNT', 'PSK_MIN_LENGTH'})
# DUPLICATE_INTERVAL is REQUEST_RETRY_INTERVAL *REQUEST_RETRY_COUNT (unparenthesised)
attempt(lambda: put('DUPLICATE_INTERVAL', evalexpr(need(r'#\s*define\s+DUPLICATE_INTERVAL\s+([^\n]+)', 'radsecproxy.h', 'DUPLICATE_INTERVAL', flags=0), defs)))
for en in ('rsp_server_state', 'rsp_statsrv', 'rsp_mac_type', 'rsp_fticks_reporting_type'):
    try:
        enum('radsecproxy.h', en)
    except SystemExit:
        missing.append('enum ' + en)

tables = {}
def tab(name, pattern, fname, what):
    try:
        tables[name] = table(pattern, fname, what)
    except Missing:
        pass
tab('prefix_mask', r'prefixmatch\s*\([^)]*\)\s*\{[^}]*?mask\[\]\s*=\s*\{([^}]*)\}', 'hostport.c', 'prefixmatch mask[] (hostport.c)')
tab('hexdigits', r'hexdigits\[\]\s*=\s*\{([^}]*)\}', 'radsecproxy.c', 'char2hex hexdigits[]')

def lit(name, pattern, fname, what):
    def f():
        v = need(pattern, fname, what)
        put(name, int(v, 0) if re.fullmatch(r'(0[xX][0-9a-fA-F]+|\d+)', v) else defs[v])
    try:
        attempt(f)
    except KeyError:
        missing.append(what)

# buffer sizes and literal bounds used by the model
lit('PWD_OUT_SIZE', r'pwdcrypt\s*\([^)]*\)\s*\{.*?out\[(\d+)\]', 'radsecproxy.c', 'pwdcrypt out[]')
lit('MPPE_PLAIN_SIZE', r'msmppdecrypt\s*\([^)]*\)\s*\{.*?plain\[(\d+)\]', 'radsecproxy.c', 'msmppdecrypt plain[]')
m = re.search(r'pwdrecrypt\s*\([^)]*\)\s*\{\s*if\s*\(len\s*<\s*(\d+)\s*\|\|\s*len\s*>\s*(\d+)\s*\|\|\s*len\s*%\s*(\d+)\)', strip_comments(src('radsecproxy.c')), re.S)
if m:
    put('PWD_MIN', m.group(1)); put('PWD_MAX', m.group(2)); put('PWD_BLOCK', m.group(3))
else:
    missing.append('pwdrecrypt length guard')
lit('MPPE_MIN', r'msmpprecrypt\s*\([^)]*\)\s*\{\s*if\s*\(len\s*<\s*(\d+)', 'radsecproxy.c', 'msmpprecrypt guard')
lit('LOGSTATIONID_SIZE', r'logstationid\[(\d+)\]', 'radsecproxy.c', 'logstationid[]')
lit('UDP_CLIENT_EXPIRY', r'expiry\s*=\s*now\.tv_sec\s*\+\s*(\d+)', 'udp.c', 'udp client expiry')
lit('ESC_LOW', r'radattr2ascii.*?v\[i\]\s*<\s*(0[xX][0-9a-fA-F]+|\d+)\s*\|\|', 'radsecproxy.c', 'radattr2ascii low bound')
lit('ESC_HIGH', r'radattr2ascii.*?v\[i\]\s*>\s*(0[xX][0-9a-fA-F]+|\d+)\)', 'radsecproxy.c', 'radattr2ascii high bound')
lit('RADMSG2BUF_MAX', r'radmsg2buf\s*\([^)]*\)\s*\{.*?if\s*\(size\s*>\s*([A-Za-z_0-9]+)\)', 'radmsg.c', 'radmsg2buf size bound')

# per-transport protodefs defaults
for f, tag in (('udp.c', 'UDP'), ('tcp.c', 'TCP'), ('tls.c', 'TLS'), ('dtls.c', 'DTLS')):
    s = strip_comments(src(f))
    m = re.search(r'static\s+const\s+struct\s+protodefs\s+protodefs\s*=\s*\{(.*?)\};', s, re.S)
    if not m:
        missing.append('protodefs of ' + f)
        continue
    items = [x.strip() for x in m.group(1).split(',')]
    # name, secretdefault, socktype, portdefault, retrycountdefault, retrycountmax, retryintervaldefault, retryintervalmax, duplicateintervaldefault
    for idx, nm in ((4, 'RETRYCOUNT_DEFAULT'), (5, 'RETRYCOUNT_MAX'), (6, 'RETRYINTERVAL_DEFAULT'), (7, 'RETRYINTERVAL_MAX'), (8, 'DUPINTERVAL_DEFAULT')):
        try:
            put('PD_%s_%s' % (tag, nm), evalexpr(items[idx], defs))
        except Exception:
            missing.append('protodefs %s of %s' % (nm, f))


# ---- the connecters of the connection-oriented transports: the order in which each one changes the server's
# state, raises the connection-reset flag and signals the writer (C12).  Codes: 1 state := RECONNECTING,
# 2 state := CONNECTED, 3 conreset := reconnect, 4 signal newrq_cond, 5 any other assignment to state or conreset.
def connecter(fname, func):
    s = strip_comments(src(fname))
    m = re.search(r'^int\s+' + func + r'\s*\([^)]*\)\s*\{(.*?)^\}', s, flags=re.S | re.M)
    if not m:
        missing.append('%s (%s)' % (func, fname))
        return None
    seq = []
    for x in re.finditer(r'server->state\s*=\s*([A-Za-z_0-9]+)\s*;|server->conreset\s*=\s*([A-Za-z_0-9]+)\s*;|pthread_cond_(?:signal|broadcast)\s*\(\s*&server->newrq_cond\s*\)', m.group(1)):
        if x.group(1):
            seq.append({'RSP_SERVER_STATE_RECONNECTING': 1, 'RSP_SERVER_STATE_CONNECTED': 2}.get(x.group(1), 5))
        elif x.group(2):
            seq.append(3 if x.group(2) == 'reconnect' else 5)
        else:
            seq.append(4)
    return seq
for f, fn in (('tcp.c', 'tcpconnect'), ('tls.c', 'tlsconnect'), ('dtls.c', 'dtlsconnect')):
    seq = connecter(f, fn)
    if seq is not None:
        tables['connecter_' + fn] = seq

lines = []
lines.append("(* GENERATED by tools/gen_consts.py from the repository sources -- do not edit. *)")
for x in missing:
    lines.append("(* MISSING: %s *)" % x)
    sys.stderr.write("gen_consts: MISSING %s\n" % x)
lines.append("From Coq Require Import NArith List.")
lines.append("Import ListNotations.")
lines.append("Local Open Scope N_scope.")
lines.append("Module Consts.")
for n in order:
    v = defs[n]
    if v < 0:
        continue
    lines.append("Definition %s : N := %d." % (n, v))
for n, vals in tables.items():
    lines.append("Definition %s : list N := [%s]." % (n, "; ".join(str(v) for v in vals)))
lines.append("End Consts.")
text = "\n".join(lines) + "\n"
old = None
if os.path.exists(out):
    with open(out) as f:
        old = f.read()
if old != text:
    os.makedirs(os.path.dirname(out), exist_ok=True)
    with open(out, 'w') as f:
        f.write(text)
