#!/bin/bash
# usage: confirm_seed.sh <worktree> <n> <propid>  -- confirm a seeded change: demo passes clean, tests pass + demo fails patched
WT="$1"; N="$2"; P="$3"; V=/verif
cd "$WT" || exit 2
git checkout -- . >/dev/null 2>&1
S="$WT/SEED/$N"
[ -f "$S/patch.diff" ] || { echo "$P/$N: no patch"; exit 2; }
make -j8 >/dev/null 2>&1
timeout 600 sh "$S/run.sh" >/tmp/confirm-$P-$N-clean.log 2>&1; c=$?
git apply "$S/patch.diff" || { echo "$P/$N: patch does not apply"; exit 2; }
make -j8 >/tmp/confirm-$P-$N-make.log 2>&1; mk=$?
t=$(make check 2>&1 | grep -E '^# (PASS|FAIL|TOTAL)' | tr -d ' \n')
timeout 600 sh "$S/run.sh" >/tmp/confirm-$P-$N-patched.log 2>&1; p=$?
git checkout -- . >/dev/null 2>&1
make -j8 >/dev/null 2>&1
echo "$P/$N: demo-clean-exit=$c make=$mk tests=$t demo-patched-exit=$p"
if [ $c = 0 ] && [ $mk = 0 ] && [ $p != 0 ] && echo "$t" | grep -q 'PASS:216#FAIL:0'; then
  D="$V/seeded/$P-$N"; mkdir -p "$D"; cp -r "$S"/* "$D"/
  cat > "$D/meta.json" <<EOM
{"property": "$P", "seed": "$P-$N", "confirmed": {"demo_clean_exit": $c, "build_with_patch": "ok", "make_check_with_patch": "216/216 pass", "demo_patched_exit": $p},
 "needs": "see NOTE.md (trigger section)", "ran": ["sh SEED/$N/run.sh (clean tree)", "git apply patch.diff && make && make check", "sh SEED/$N/run.sh (patched tree)"]}
EOM
  echo "$P/$N: CONFIRMED -> $D"
else
  echo "$P/$N: NOT confirmed"
fi
