#!/bin/sh
# usage: mkworktree.sh <dir>   -- scratch git worktree of /repo with the autotools outputs copied in and built
set -e
d="$1"
git -C /repo worktree add --detach "$d" HEAD >/dev/null 2>&1
cd /repo
for f in configure Makefile.in aclocal.m4 build-aux tests/Makefile.in config.h.in; do
  [ -e "$f" ] && rsync -a "$f" "$d/$(dirname $f)/" 
done
cd "$d"
./configure >/dev/null 2>&1
make -j8 >/dev/null 2>&1
echo "worktree ready: $d"
