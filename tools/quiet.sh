#!/bin/bash
# usage: quiet.sh <tier> <seed>... : every property's check on the unchanged tree with several generator seeds; prints what is not "ok"
tier="$1"; shift
for s in "$@"; do
  for c in C01 C02 C03 C04 C05 C06 C07 C08 C09 C10 C11 C12 C13 C14 C15 C16 C17 C18 C19 C20; do
    out=$(VERIF_SEED=$s timeout 5400 ./check $c --tier $tier 2>&1 | tail -1)
    case "$out" in *": ok ("*) ;; *) echo "seed $s $c: $out";; esac
  done
  echo "seed $s done"
done
