#!/bin/bash
# usage: build_harness.sh <repo> <outdir>   builds the harness binaries from the repo's CURRENT working tree
set -e
REPO="$1"; OUT="$2"; V="$(cd "$(dirname "$0")/.." && pwd)"
mkdir -p "$OUT"
CF="-g -O1 -fsanitize=address,undefined -fno-sanitize=alignment,nonnull-attribute -fno-sanitize-recover=all -fno-omit-frame-pointer -pthread -w \
 -DPACKAGE_VERSION=\"verif\" -DHAVE_MALLOPT=1 -DHAVE_LIBNETTLE=1 -DHAVE_LIBRESOLV=1 -DSYSCONFDIR=\"/etc\" \
 -DRADPROT_UDP -DRADPROT_TCP -DRADPROT_TLS -DRADPROT_DTLS -DRADSECPROXY_VERIF -I$REPO -I$V/harness"
OTHERS="debug dns dtls fticks fticks_hashmac gconfig hash hostport list radmsg rewrite tcp tls tlscommon tlv11 udp util"
pids=()
for f in $OTHERS; do
  ( gcc $CF -c "$REPO/$f.c" -o "$OUT/$f.o" 2> "$OUT/$f.err" || { cat "$OUT/$f.err" >&2; exit 1; } ) &
  pids+=($!)
done
( gcc $CF -c "$REPO/radsecproxy.c" -o "$OUT/rsp_plain.o" 2> "$OUT/rsp_plain.err" || { cat "$OUT/rsp_plain.err" >&2; exit 1; } ) &
pids+=($!)
( gcc $CF -c "$V/harness/hcook.c" -o "$OUT/hcook.o" 2> "$OUT/hcook.err" || { cat "$OUT/hcook.err" >&2; exit 1; } ) &
pids+=($!)
( gcc $CF -c "$V/harness/hmain.c" -o "$OUT/hmain.o" 2> "$OUT/hmain.err" || { cat "$OUT/hmain.err" >&2; exit 1; } ) &
pids+=($!)
rc=0
for p in "${pids[@]}"; do wait $p || rc=1; done
[ $rc = 0 ] || { echo "harness compile failed" >&2; exit 1; }
WRAP="-Wl,--wrap=querysrv -Wl,--wrap=querynaptr -Wl,--wrap=regcomp -Wl,--wrap=regexec -Wl,--wrap=gettimeofday -Wl,--wrap=RAND_bytes -Wl,--wrap=pthread_create -Wl,--wrap=pthread_detach -Wl,--wrap=pthread_cond_timedwait -Wl,--wrap=poll -Wl,--wrap=read -Wl,--wrap=SSL_read -Wl,--wrap=SSL_pending -Wl,--wrap=SSL_get_error -Wl,--wrap=SSL_get_fd -Wl,--wrap=SSL_shutdown -Wl,--wrap=SSL_get_shutdown -Wl,--wrap=SSL_set_shutdown -Wl,--wrap=radsrv -Wl,--wrap=replyh -Wl,--wrap=closeh -Wl,--wrap=timeouth -Wl,--wrap=pthread_join -Wl,--wrap=shutdown -Wl,--wrap=close -Wl,--wrap=pthread_mutex_lock -Wl,--wrap=pthread_mutex_unlock -Wl,--wrap=sleep -Wl,--wrap=malloc -Wl,--wrap=calloc -Wl,--wrap=realloc -Wl,--wrap=strdup -Wl,--wrap=asprintf -Wl,--wrap=recvfrom -Wl,--wrap=recv -Wl,--wrap=connecttcp"
objs=""; for f in $OTHERS; do objs="$objs $OUT/$f.o"; done
gcc $CF $WRAP "$OUT/hmain.o" $objs -o "$OUT/hmain" -lssl -lcrypto -lnettle -lresolv
# the DNS record parsers alone (dns.c is included by the harness so that its statics are reachable)
gcc $CF "$V/harness/hdns.c" "$OUT/debug.o" "$OUT/util.o" -o "$OUT/hdns" -lresolv -lssl -lcrypto
# the DTLS cookie callbacks (tlscommon.c is included by the harness so that its statics are reachable)
cobjs=""; for f in $OTHERS; do [ $f = tlscommon ] || cobjs="$cobjs $OUT/$f.o"; done
gcc $CF "$OUT/hcook.o" "$OUT/rsp_plain.o" $cobjs -o "$OUT/hcook" -lssl -lcrypto -lnettle -lresolv
echo ok > "$OUT/.built"
