#!/usr/bin/env python3
"""summarise unexplained outcomes of the last C19 run (build/run/C19)"""
import glob, re, collections, sys
rd = sys.argv[1] if len(sys.argv) > 1 else '/verif/build/run/C19'
impl = {}
for f in glob.glob(rd + '/c*.impl'):
    cur = None
    for l in open(f):
        l = l.rstrip('\n')
        if l.startswith('case '): cur = l[5:]; impl[cur] = []
        elif l == 'end': cur = None
        elif cur: impl[cur].append(l)
bad = collections.OrderedDict()
expl = collections.Counter()
for f in sorted(glob.glob(rd + '/c*.model')):
    cur = None
    for l in open(f):
        l = l.rstrip('\n')
        if l.startswith('case '): cur = l[5:]
        elif 'C19_outcome_explained' in l:
            if ' FAIL ' in l: bad[cur] = l
            else: expl[(cur.rsplit('-n', 1)[0], l.split('failing stage ')[-1])] += 1
        elif 'FAIL' in l and l.startswith('spec'):
            bad.setdefault(cur, l)
for k, v in sorted(expl.items()): print('explained', k, v)
groups = collections.OrderedDict()
for c in bad:
    kind, n = c.rsplit('-n', 1)
    groups.setdefault(kind, []).append(int(n))
for k, ns in groups.items():
    print('UNEXPLAINED', k, sorted(ns))
