#!/usr/bin/env python3
"""print impl and model output of one case of a run directory: showcase.py <rundir> <caseid>"""
import glob, sys
rd, cid = sys.argv[1], sys.argv[2]
for ext in ('impl', 'model'):
    for f in glob.glob(rd + '/c*.' + ext):
        cur = None
        for l in open(f):
            l = l.rstrip('\n')
            if l.startswith('case '): cur = l[5:]
            elif cur == cid and l != 'end': print(ext.upper()[:1], l[:int(sys.argv[3]) if len(sys.argv) > 3 else 200])
            if l == 'end': cur = None
