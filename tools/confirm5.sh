#!/bin/bash
# usage: confirm4.sh <prop>  -- confirm the round-5 seed of a property (worktree /root/scratch/s5/wt-<prop>) and store them as seeded/<prop>-8
P="$1"; WT=/root/scratch/s5/wt-$P; V=/verif
for N in 1; do
  S="$WT/SEED/$N"
  [ -f "$S/patch.diff" ] || { echo "$P/$N: no patch"; continue; }
  cd "$WT" || exit 2
  git checkout -- . >/dev/null 2>&1; make -j8 >/dev/null 2>&1
  timeout 600 sh "$S/run.sh" > "$WT/SEED/confirm-$N-clean.log" 2>&1; c=$?
  git apply "$S/patch.diff" || { echo "$P/$N: patch does not apply"; continue; }
  make -j8 > "$WT/SEED/confirm-$N-make.log" 2>&1; mk=$?
  t=$(make check 2>&1 | grep -E '^# (PASS|FAIL|TOTAL)' | tr -d ' \n')
  timeout 600 sh "$S/run.sh" > "$WT/SEED/confirm-$N-patched.log" 2>&1; p=$?
  git checkout -- . >/dev/null 2>&1; make -j8 >/dev/null 2>&1
  M=8; while [ -e "$V/seeded/$P-$M" ]; do M=$((M+1)); done
  echo "$P/$N: demo-clean-exit=$c make=$mk tests=$t demo-patched-exit=$p"
  if [ $c = 0 ] && [ $mk = 0 ] && [ $p != 0 ] && echo "$t" | grep -q 'PASS:216#FAIL:0'; then
    D="$V/seeded/$P-$M"; mkdir -p "$D"; cp -r "$S"/* "$D"/
    for f in common.h build.sh; do [ -f "$WT/SEED/$f" ] && cp "$WT/SEED/$f" "$D/"; done
    find "$D" -type f -size +200k -delete; find "$D" -type f -perm -u+x ! -name '*.sh' -exec sh -c 'file "$1" | grep -q ELF && rm -f "$1"' _ {} \;
    cat > "$D/meta.json" <<EOM
{"property": "$P", "seed": "$P-$M", "round": 5, "confirmed": {"demo_clean_exit": $c, "build_with_patch": "ok", "make_check_with_patch": "216/216 pass", "demo_patched_exit": $p},
 "needs": "see NOTE.md (trigger section)", "ran": ["sh SEED/$N/run.sh (clean tree)", "git apply patch.diff && make && make check", "sh SEED/$N/run.sh (patched tree)"]}
EOM
    echo "$P/$N: CONFIRMED -> $D"
  else
    echo "$P/$N: NOT confirmed"
  fi
done
