#!/bin/bash
# usage: build_model.sh   -- extracts the model (coqc on Extract.v) and builds ocaml/driver into build/ocaml
set -e
V="$(cd "$(dirname "$0")/.." && pwd)"
B="$V/build/ocaml"
mkdir -p "$B"
cd "$B"
timeout 600 coqc -q -Q "$V/coq/Gen" RSP -Q "$V/coq/Model" RSP -Q "$V/coq/Spec" RSP -Q "$V/coq/Proofs" RSP -w -extraction-opaque-accessed,-extraction-logical-axiom -o "$B/Extract.vo" "$V/coq/Extract/Extract.v" > extract.log 2>&1 || { cat extract.log >&2; exit 1; }
cp "$V"/ocaml/*.ml .
ocamlfind ocamlopt -w -a model.mli model.ml util.ml $( [ -f sha256.ml ] && echo sha256.ml ) ops.ml pipe.ml driver.ml -o driver 2> ocaml.log || { cat ocaml.log >&2; exit 1; }
echo ok
