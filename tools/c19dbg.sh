#!/bin/bash
# usage: c19dbg.sh <caseid> [rundir]  -- re-runs one case and prints each candidate's outcome next to the implementation's
RD=${2:-/verif/build/run/C19}; D=/root/scratch/d; mkdir -p $D; cd $D
cat $RD/c*.cases | awk -v id="case $1" '$0==id{p=1} p{print} /^end$/{if(p)exit}' > one.cases
H=$(ls -td /verif/build/h_*/ | head -1)
ASAN_OPTIONS=detect_leaks=0 VERIF_RUNDIR=. $H/hmain one.cases > one.impl 2>one.err
VERIF_C19_DEBUG=1 /verif/build/ocaml/driver one.cases one.impl 2>&1 >/dev/null | cut -c1-${3:-150}
