"""C16: stream framing over scripted delivery schedules, through the real reader loops of tcp.c / tls.c / tlscommon.c"""
from common import *
TRUSTED_BASE = ['model of tcpreadtimeout/radtcpget/sslreadtimeout/radtlsget and the four reader loops in coq/Model/Frame.v',
                'the scripted transport of harness/hframe.inc (poll/read/SSL_read redirected at link time; one schedule event per poll/read)']
ASSUMPTIONS = ['read()/SSL_read() return between 1 and the requested number of bytes, in order (the contract of the transport)']
RULE = ('streams of 1..5 packets (lengths 20, 21, 40, 4095, 4096, random) x schedules: every split point (short streams), 1-byte reads, splits inside the header, random partitions, '
        'timeouts/errors/EOF at every offset, TLS want-read events, bad length fields 0/19/4097/65535; distinct = distinct implementation observation lines')
READERS = ['tcps', 'tcpc', 'tlss', 'tlsc']

def pkt(rng, ln, code=None):
    b = bytearray(rbytes(rng, ln))
    b[0] = code if code is not None else rng.choice([1, 2, 4, 5])
    b[2], b[3] = ln >> 8, ln & 255
    return bytes(b)

def sched_all(total, k):
    return ['r%d' % k] * (total // max(k, 1) + 2)

def generate(rng, tier):
    ops = []
    n = 6000 if tier == 'thorough' else 250
    # every split point of short streams
    for rd in READERS:
        s = pkt(rng, 20) + pkt(rng, 21)
        for cut in range(1, len(s)):
            ops.append('op frame %s - %s r%d r%d r100' % (rd, hx(s), cut, len(s)))
        for cut in range(0, len(s) + 1, 1 if tier == 'thorough' else 3):
            # EOF / timeout / error at every offset
            ops.append('op frame %s - %s %s' % (rd, hx(s[:cut]), ' '.join(['r5'] * 12)))
            if cut:
                ops.append('op frame %s - %s r%d t r100 r100 r100' % (rd, hx(s), cut))
                ops.append('op frame %s - %s r%d e r100 r100' % (rd, hx(s), cut))
        ops.append('op frame %s - %s %s' % (rd, hx(s), ' '.join(['r1'] * (len(s) + 2))))
        # mid-packet stall where the bytes that follow look like a header
        inner = bytearray(pkt(rng, 40))
        inner[10:14] = bytes([2, 7, 0, 20])
        s2 = bytes(inner) + pkt(rng, 20)
        ops.append('op frame %s - %s r10 t r100 r100 r100 r100' % (rd, hx(s2)))
        ops.append('op frame %s - %s r4 t r100 r100 r100 r100' % (rd, hx(s2)))
        inner2 = bytearray(pkt(rng, 40))
        inner2[4:8] = bytes([2, 7, 0, 20])
        ops.append('op frame %s - %s r4 t r100 r100 r100 r100' % (rd, hx(bytes(inner2) + pkt(rng, 24))))
        # a zero length field followed by bytes that look like a packet
        ops.append('op frame %s - %s r100 r100 r100 r100 r100' % (rd, hx(bytes([1, 1, 0, 0]) + pkt(rng, 20) + pkt(rng, 20))))
        ops.append('op frame %s - %s r100 r100 r100 r100 r100' % (rd, hx(pkt(rng, 20) + bytes([1, 1, 0, 0]) + pkt(rng, 20))))
        # bad length fields
        for bad in (0, 1, 19, 4097, 65535):
            b = bytearray(pkt(rng, 20)); b[2], b[3] = bad >> 8, bad & 255
            ops.append('op frame %s - %s r100 r100 r100 r100 r100' % (rd, hx(pkt(rng, 20) + bytes(b) + pkt(rng, 20))))
            ops.append('op frame %s - %s r100 r100 r100 r100 r100' % (rd, hx(bytes(b) + pkt(rng, 20))))
    for _ in range(n):
        rd = rng.choice(READERS)
        k = rng.randrange(1, 5)
        lens = [rng.choice([20, 21, 40, 64, 300, rng.randrange(20, 600)]) for _ in range(k)]
        if rng.random() < 0.03:
            lens[rng.randrange(k)] = rng.choice([4095, 4096])
        s = b''.join(pkt(rng, l) for l in lens)
        if rng.random() < 0.15:
            s = s[:rng.randrange(len(s) + 1)]
        sched = []
        pos = 0
        mode = rng.random()
        while pos < len(s) + 3:
            r = rng.random()
            if mode < 0.25:
                step = 1
            elif mode < 0.5:
                step = rng.choice([1, 2, 3, 4, 5])
            else:
                step = rng.choice([1, 2, 4, 16, 20, 100, 5000])
            sched.append('r%d' % step)
            pos += step
            if rd.startswith('tls') and rng.random() < 0.1:
                sched.append('w')
            if rng.random() < 0.02:
                sched.append(rng.choice(['t', 'e']))
            if rng.random() < 0.03:
                sched.append('h')   # the peer's FIN has arrived while earlier bytes are still unread
        rej = '-' if rng.random() < 0.9 else str(rng.randrange(k))
        ops.append('op frame %s %s %s %s' % (rd, rej, hx(s), ' '.join(sched)))
    cases = batch(ops, 'fr', 25)
    return [(cid, ['cfg nopipe'] + lines) for cid, lines in cases]
