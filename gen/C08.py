"""C08: realm matching (real addrealm + id2realm against the Gallina matcher) and realm-ordered routing through the pipeline"""
from common import *
import pipeline
TRUSTED_BASE = ['model of addrealm regex construction + a matcher for the emitted ERE fragment in coq/Model/Route.v (a MODEL of glibc regexec on that fragment, validated by correspondence); /regex/ realms use the logged glibc answers (oracle)',
                'model of radsrv routing (id2realm, choosesrvconf, no-realm / no-server outcomes) in coq/Model/Proxy.v']
ASSUMPTIONS = ['User-Names without NUL octets (C08 quantifier); C locale']
RULE = 'generated realm names x User-Names (suffix/prefix/infix/case variants, zero/one/many @, dots replaced, non-ASCII, lengths 0..253) on the real addrealm/id2realm; ordered realm lists with/without servers, ReplyMessage, AccountingResponse through radsrv; distinct = distinct implementation observation lines'
NAMES = ['example.com', 'a.b', 'x', 'sub.example.com', 'students.example.ac.uk', 'a-b.c', 'EXAMPLE.org', '1.2.3', 'a', 'verylongrealm' * 10 + '.org']
def users_for(rng, name):
    u = []
    base = name
    alts = [base, base.upper(), base.lower(), base.swapcase(), 'x' + base, base + 'x', base + '.', '.' + base, base.replace('.', 'x', 1), base.replace('.', '-'),
            base[:-1], base[1:], base + '@', base + '@' + base, 'sub.' + base, base + '.evil.org', base.replace('.', '..'), '',
            base + '\n', base + '\n@evil.net', base + '\nx', '\n' + base, 'evil.net\nbob@' + base, base + '\r', base + '\n\n']
    if base.count('.') >= 2:
        parts = base.split('.')
        alts += ['.'.join(parts[:2]) + 'x' + '.'.join(parts[2:]), '.'.join(parts[:-1]) + '-' + parts[-1], parts[0] + '.' + 'Y'.join(parts[1:])]
    for a in alts:
        for pre in ('bob@', '@', 'bob', 'a@b@', 'bob@x@'):
            u.append((pre + a).encode())
    for _ in range(6):
        ln = rng.choice([0, 1, 5, 40, 253])
        b = bytes(rng.choice(b'ab.@-\xe9\n*$\\') for _ in range(ln))
        u.append(b + b'@' + base.encode() if rng.random() < 0.5 else b)
    u = [x[:253] for x in u]
    return u
def empty_username_cases(rng):
    """'*' matches every User-Name -- also the one of length 0 (the property's quantifier starts at 0): one Access-Request
    and one Accounting-Request with a zero-length User-Name, only realm '*', a usable server; a one-octet name as control"""
    import focus
    out = []
    for k, code in enumerate((1, 4)):
        cfg = focus._cfg1(rng)
        cfg.realms[0].name = '*'
        ops = []
        for i, un in enumerate((b'x', b'')):
            pkt, _ = pipeline.clean_request(rng, cfg, 0, code=code, ident=40 + i, uname=un, ma=(code == 1))
            ops.append('op cpkt 0 1000005 %s %s' % (pipeline.rnd40(rng), hx(pkt)))
        out.append(('emptyuser-%d' % k, cfg.conf_lines() + cfg.cfg_lines() + ['cfg strict empty-username'] + ops))
    return out

def include_cases(rng, n):
    """realm blocks spread over files reached through one `include <dir>/*.conf`: the files are read in alphabetical
    order at the place of the include (radsecproxy.conf.5), so "the first realm block in configuration order" is the one
    in the alphabetically first file.  Every realm has its own ReplyMessage and no server: the reject shows which won."""
    import focus
    out = []
    for k in range(n):
        cfg = focus._cfg1(rng)
        names = rng.sample(['/@.*example\\.com$', 'sub.example.com', 'example.com', '/^[a-z]+@/', 'b.example', '*'], rng.choice([2, 3, 4]))
        cfg.realms = []
        for i, nm in enumerate(names):
            r = pipeline.Realm(nm)
            r.msg = b'realm-%d' % i
            r.accresp = rng.random() < 0.5
            cfg.realms.append(r)
        lines = cfg.conf_lines()
        # cut the realm blocks out of the main file; block i goes to a file whose name sorts at position i
        main, blocks, cur = [], [], None
        for l in lines:
            body = l[5:] if l.startswith('conf ') else l
            if cur is None and body.startswith('realm '):
                cur = [body]
            elif cur is not None:
                cur.append(body)
                if body.strip() == '}':
                    blocks.append(cur); cur = None
            else:
                main.append(l)
        fnames = sorted(rng.sample(['%02d-%s.conf' % (x, rng.choice(['a', 'm', 'z'])) for x in range(10, 99, 7)], len(blocks)))
        incl = []
        order = list(range(len(blocks)))
        rng.shuffle(order)                     # the order in which the files are written does not matter
        for i in order:
            incl += ['inc %s %s' % (fnames[i], b) for b in blocks[i]]
        main.append('conf include @INCDIR@/*.conf')
        ops = []
        for i, un in enumerate([b'alice@sub.example.com', b'bob@example.com', b'carol@b.example', b'nobody']):
            for code in (1, 4):
                pkt, _ = pipeline.clean_request(rng, cfg, 0, code=code, ident=50 + 2 * i + (code == 4), uname=un, ma=(code == 1))
                ops.append('op cpkt 0 1000005 %s %s' % (pipeline.rnd40(rng), hx(pkt)))
        out.append(('include-%d' % k, main + incl + cfg.cfg_lines() + ops))
    return out

def _is_empty_username_drop(case, impl_lines, model_lines, problems):
    """the recorded finding and nothing else: the only failing spec is C08_star_matches_empty_username, there is no
    model/implementation mismatch, and the case is one of the dedicated ones"""
    specs = [p for p in problems if p[0] == 'spec']
    return (case[0].startswith('emptyuser-') and bool(specs) and all(p[1] == 'C08_star_matches_empty_username' for p in specs)
            and not [p for p in problems if p[0] != 'spec'])

CLASSIFIERS = {'empty_username_dropped': _is_empty_username_drop}

def generate(rng, tier):
    ops = []
    names = list(NAMES) + ['*', '/@ex.*\\.com$', '/^[a-z]+@/', '/@b\\.example$/',
                           # expressions containing '/': only ONE trailing '/' is optional syntax, the rest is expression
                           '/^host/[^@]+@b\\.example$', '/^host/[^@]+@b\\.example$/', '/a/b/', '//', '/x//']
    if tier == 'thorough':
        for _ in range(300):
            ln = rng.randrange(1, 30)
            names.append(''.join(rng.choice('abcXYZ019.-') for _ in range(ln)))
    else:
        for _ in range(20):
            names.append(''.join(rng.choice('abcXYZ019.-') for _ in range(rng.randrange(1, 12))))
    for nm in names:
        if nm.startswith('/') or nm == '*':
            us = users_for(rng, 'b.example')
        else:
            us = users_for(rng, nm)
        for i in range(0, len(us), 40):
            ops.append('op realm %s %s' % (hx(nm.encode()), ' '.join(hx(x) for x in us[i:i + 40])))
    # a matching block with dynamically discovered sub-realms: the sub-realm, else the block itself
    for _ in range(400 if tier == 'thorough' else 40):
        pool = [b'u@a.example', b'v@a.example', b'u@b.example', b'nobody', b'u@A.EXAMPLE', b'x@sub.a.example', b'u@a.examplex', b'u@;bad', b'w@c.test', b'u@xa.example']
        seq = [rng.choice(pool) for _ in range(rng.randrange(2, 7))]
        if rng.random() < 0.4:
            # servers of the sub-realms end; later names with several '@' or unsafe text before the last '@' re-create them
            k = rng.randrange(1, len(seq))
            seq = seq[:k] + [b'expire'] + seq[k:] + [rng.choice([b'x@`id`;$(reboot)@a.example', b'u@;bad@a.example', b'p@q@b.example', b'u@a.example'])]
        ops.append('op dynrealm %s %s' % (hx(b'srv:_radsec._tcp'), ' '.join('expire' if x == b'expire' else hx(x) for x in seq)))
    cases = [(cid, ['cfg nopipe'] + l) for cid, l in batch(ops, 'realm', 10)]
    # routing through the pipeline: ordered realm lists
    def mod(rng, cfg):
        for r in cfg.realms:
            if rng.random() < 0.5:
                r.srv = []
            r.msg = rng.choice([None, b'no-route'])
            r.accresp = rng.random() < 0.5
    cases += pipeline.guided_cases(rng, 400 if tier == 'thorough' else 25, lambda rng, cfg: pipeline.history(rng, cfg, 10), 'route', rich=False, cfgmod=mod)
    import focus
    cases += focus.noserver_cases(rng, 4 if tier == 'thorough' else 1)
    return empty_username_cases(rng) + include_cases(rng, 60 if tier == 'thorough' else 8) + cases
