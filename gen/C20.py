"""C20: dynamic lookups only with a sanitised realm argument: real findserver/adddynamicrealmserver/addserver, dynamicconfig (srv:/naptr: query names recorded, external command run through the real fork/execlp)"""
from common import *
import os
TRUSTED_BASE = ['model of adddynamicrealmserver extraction and dynamicconfig query construction in coq/Model/Route.v',
                'harness/hroute.inc: querysrv/querynaptr replaced by recorders at link time; harness/hdns.c: the real querynaptr/querysrv with the resolver entry points (res_nquery, res_nsearch, res_query, res_search) replaced by recorders; the external command is a shell script that records its argument vector']
ASSUMPTIONS = ['C locale (isalnum on ASCII)']
RULE = 'User-Names over every octet in the realm part (all 256 single-octet realms; thorough: all two-octet realms over a 40-octet alphabet), lengths 0..253, multiple @, shell metacharacters, whitespace, leading -, non-ASCII, embedded NUL; commands srv:, naptr:, external; distinct = distinct implementation observation lines'
def generate(rng, tier):
    here = os.path.dirname(os.path.dirname(os.path.abspath(__file__)))
    script = os.path.join(here, 'harness', 'lookup.sh')
    cmds = ['srv:_radsec._tcp', 'srv:_radsec._tcp.', 'naptr:x-eduroam:radius.tls', script]
    ops = []
    for b in range(256):
        ops.append('op dynrealm %s %s' % (hx(rng.choice(cmds).encode()), hx(b'u@' + bytes([b]))))
        ops.append('op dynrealm %s %s' % (hx(cmds[0].encode()), hx(b'u@a' + bytes([b]) + b'c')))
    alpha = b'ab09.-;|&$ `\'"\\\n\t/@*%\x00\x80\xff()<>{}=!~#_+,:?'
    if tier == 'thorough':
        for x in alpha:
            for y in alpha:
                ops.append('op dynrealm %s %s' % (hx(rng.choice(cmds).encode()), hx(b'user@' + bytes([x, y]))))
    n = 20000 if tier == 'thorough' else 800
    for _ in range(n):
        k = rng.random()
        ln = rng.choice([0, 1, 2, 5, 20, 100, 240, 251])
        if k < 0.5:
            realm = bytes(rng.choice(b'abcXYZ0189.-') for _ in range(ln))
        else:
            realm = bytes(rng.choice(alpha) for _ in range(ln))
        user = rng.choice([b'u@', b'@', b'', b'a@b@', b'u@x;y@', b'\xe9@']) + realm
        ops.append('op dynrealm %s %s' % (hx(rng.choice(cmds).encode()), hx(user[:253])))
    # sequences on one configuration: sub-realm created by an earlier request, then other realms / no realm
    for _ in range(600 if tier == 'thorough' else 60):
        pool = [b'u@a.example', b'v@a.example', b'u@b.example', b'nobody', b'u@A.EXAMPLE', b'x@sub.a.example', b'u@a.examplex', b'u@;bad', b'w@c.test', b'u@xa.example']
        seq = [rng.choice(pool) for _ in range(rng.randrange(2, 7))]
        if rng.random() < 0.4:
            # the servers of the sub-realms end; later names with several '@' / unsafe text before the last '@' re-create them
            k = rng.randrange(1, len(seq))
            seq = seq[:k] + [b'expire'] + seq[k:] + [rng.choice([b'x@`id`;$(reboot)@a.example', b'u@;bad@a.example', b'p@q@b.example', b'u@a.example', b'z@;x@c.test'])]
        ops.append('op dynrealm %s %s' % (hx(cmds[0].encode()), ' '.join('expire' if x == b'expire' else hx(x) for x in seq)))
    # the query names reach the resolver as they are: one exact query (no search list, no default domain appended),
    # whatever the number of dots -- single labels, names that do not resolve, trailing dot or not
    qops = []
    names = [b'intranet', b'a', b'example.org', b'no-such-realm.example.org', b'_radsec._tcp.intranet', b'_radsec._tcp.example.org',
             b'example.org.', b'x-y.example.net', b'a.b.c.d.e.f']
    for nm in names:
        for kind in ('naptr', 'srv'):
            qops.append('op query %s %s' % (kind, hx(nm)))
    for _ in range(200 if tier == 'thorough' else 20):
        labels = [bytes(rng.choice(b'abcxyz019-_') for _ in range(rng.randrange(1, 12))) for _ in range(rng.randrange(1, 6))]
        qops.append('op query %s %s' % (rng.choice(['naptr', 'srv']), hx(b'.'.join(labels) + rng.choice([b'', b'', b'.']))))
    qcases = [(cid, ['harness hdns'] + l) for cid, l in batch(qops, 'dnsq', 20)]
    return [(cid, ['cfg nopipe'] + l) for cid, l in batch(ops, 'dyn', 25)] + qcases
