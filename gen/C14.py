"""C14: peers identified by source address: host lists with host and address/length entries, sources at every first-differing-bit position"""
from common import *
import ipaddress
TRUSTED_BASE = ['model of prefixmatch/_internal_addressmatches (hostport.c) and find_conf (radsecproxy.c) in coq/Model/Addr.v; the mask[] table is regenerated from hostport.c',
                'host entries are numeric (no resolver); blocks are parsed by the real configuration parser (addhostport/resolvehostports)']
ASSUMPTIONS = ['prefix lengths admitted by the configuration code (<= 32 for IPv4, <= 128 for IPv6)', 'transport-level use of find_clconf/find_srvconf (udp.c/tcp.c/tls.c/dtls.c) is not modelled; UDP/TCP blocks only']
RULE = ('blocks with host and address/length entries of both families; sources with first differing bit at plen-2..plen+1, at random positions, equal, IPv4-mapped, other entries; '
        'thorough: every prefix length x every first-differing-bit position; distinct = distinct implementation observation lines')

def flip(addr, bit, rng=None, randomize_below=True):
    b = bytearray(addr)
    b[bit // 8] ^= 0x80 >> (bit % 8)
    if rng and randomize_below:
        for k in range(bit + 1, len(b) * 8):
            if rng.random() < 0.5:
                b[k // 8] ^= 0x80 >> (k % 8)
    return bytes(b)

def network(addr, plen):
    n = int.from_bytes(addr, 'big')
    L = len(addr) * 8
    if plen < L:
        n &= ~((1 << (L - plen)) - 1)
    return n.to_bytes(len(addr), 'big')

LEADING_ZERO = [False]

def entry_text(fam, addr, plen, port=None):
    a = str(ipaddress.ip_address(addr))
    if fam == 6:
        t = '[%s]' % a
    else:
        t = a
    if plen != 255:
        # the length is a decimal number however many leading zeros it is written with
        t += ('/0%d' if LEADING_ZERO[0] else '/%d') % plen
        if port:
            t = None
    elif port:
        t += ':%d' % port
    return t

def make_case(rng, cid, nblocks, thorough_pair=None):
    LEADING_ZERO[0] = rng.random() < 0.3
    conf, cfg, entries = [], ['cfg nopipe'], []
    for which, kw, base in (('cl', 'client', 0), ('srv', 'server', 0)):
        for i in range(nblocks):
            typ = rng.choice([0, 0, 2])
            hosts = []
            for _ in range(rng.randrange(1, 4)):
                fam = rng.choice([4, 4, 6])
                addr = rbytes(rng, 4 if fam == 4 else 16)
                if fam == 6 and addr[:12] == b'\0' * 10 + b'\xff\xff':
                    addr = b'\x20' + addr[1:]
                L = 32 if fam == 4 else 128
                plen = rng.choice([255, 255, L, rng.randrange(0, L + 1), rng.choice([7, 8, 9, 15, 16, 17, 23, 24, 25, 28, 31])]) if which == 'cl' else 255
                if fam == 6 and which == 'cl' and rng.random() < 0.25 and not thorough_pair:
                    # IPv6 entries that cover the IPv4-mapped range: an IPv4 peer seen as ::ffff:a.b.c.d must NOT match them
                    addr, plen = rng.choice([(b'\0' * 16, 0), (b'\0' * 10 + b'\xff\xff' + b'\0' * 4, 96), (b'\0' * 10 + b'\xff\xff' + rbytes(rng, 4), 255), (b'\0' * 10 + b'\xff\xff' + rbytes(rng, 4), 128)])
                if thorough_pair and which == 'cl' and i == 0 and not hosts:
                    fam, plen = thorough_pair
                    addr = rbytes(rng, 4 if fam == 4 else 16)
                    if fam == 6:
                        addr = b'\x20\x01' + addr[2:]
                if plen != 255:
                    addr = network(addr, plen) if rng.random() < 0.8 else addr
                port = rng.choice([None, 1812, 1645, 2083]) if plen == 255 else None
                hosts.append((fam, addr, port, plen))
            conf.append('%s %s%d {' % (kw, which, i))
            conf.append('  type %s' % ('udp' if typ == 0 else 'tcp'))
            for fam, addr, port, plen in hosts:
                conf.append('  host %s' % entry_text(fam, addr, plen, port))
            conf.append('  secret x')
            conf.append('}')
            defport = 1812 if typ == 0 else 1812
            cfg.append('cfg block %s %d type=%d hosts=%s' % (which, i, typ, ';'.join('%d:%s:%d:%d' % (f, hx(a), p or (1812 if typ == 0 else 1812), l) for f, a, p, l in hosts)))
            for h in hosts:
                entries.append((which, typ, h))
    conf.append('realm * {'); conf.append('}')
    ops = []
    for which, typ, (fam, addr, port, plen) in entries:
        L = 32 if fam == 4 else 128
        eff = L if plen == 255 else plen
        positions = set([max(eff - 2, 0), max(eff - 1, 0), min(eff, L - 1), min(eff + 1, L - 1), rng.randrange(L), L - 1, 0])
        if thorough_pair and (fam, plen) == thorough_pair:
            positions = set(range(L))
        srcs = [addr] + [flip(addr, p, rng) for p in positions]
        for a in srcs:
            for t in (typ, 2 - typ):
                ops.append('op addr %s %d %d %s %d' % (which, t, fam, hx(a), rng.choice([port or 1812, 1812, 40000])))
            if fam == 4:
                ops.append('op addr %s %d 6 %s %d' % (which, typ, hx(b'\0' * 10 + b'\xff\xff' + a), port or 1812))
                ops.append('op addr %s %d 6 %s %d' % (which, typ, hx(b'\0' * 12 + a), port or 1812))
            else:
                ops.append('op addr %s %d 4 %s %d' % (which, typ, hx(a[:4]), port or 1812))
        if fam == 6 and addr[:10] == b'\0' * 10:
            for v4 in [addr[12:], rbytes(rng, 4)] + [e[2][1] for e in entries if e[2][0] == 4][:3]:
                for t in (typ, 2 - typ):
                    ops.append('op addr %s %d 6 %s %d' % (which, t, hx(b'\0' * 10 + b'\xff\xff' + v4), port or 1812))
    return (cid, ['conf ' + x for x in conf] + cfg + ops)

def generate(rng, tier):
    cases = [make_case(rng, 'addr-%d' % i, rng.randrange(1, 5)) for i in range(400 if tier == 'thorough' else 40)]
    if tier == 'thorough':
        k = 0
        for fam, L in ((4, 32), (6, 128)):
            for plen in range(0, L + 1):
                cases.append(make_case(rng, 'pfx-%d-%d' % (fam, plen), 2, thorough_pair=(fam, plen)))
    else:
        for fam, plen in ((4, 28), (4, 17), (6, 61), (6, 127), (4, 0), (6, 0)):
            cases.append(make_case(rng, 'pfx-%d-%d' % (fam, plen), 2, thorough_pair=(fam, plen)))
    return cases
