"""C04: only authentic replies to outstanding requests are accepted -- codec-level cases (handler-level cases are added by pipeline.py)"""
from common import *
import codec, radius
TRUSTED_BASE = ['model of buf2radmsg in coq/Model/Packet.v; MD5 oracle (Coq) / OCaml Digest (driver); HMAC-MD5 defined in Gallina per RFC 2104']
ASSUMPTIONS = ['md5 output has 16 bytes']
RULE = 'valid replies, every single-bit corruption of the first 64 bytes of a valid reply + random bit flips, replies signed with another secret / for another request; distinct = distinct implementation observation lines'
def generate_core(rng, tier):
    ops = []
    m = 40 if tier == 'thorough' else 3
    for it in range(m):
        sec = rbytes(rng, [256, 300, 257][it]) if it < 3 else codec.secret_of(rng)
        rq = rbytes(rng, 16)
        code = rng.choice([2, 3, 11, 5])
        attrs = codec.rand_attrs(rng, maxn=4)
        attrs = [(t, v) for t, v in attrs if t != 80]
        if rng.random() < 0.7:
            attrs.insert(rng.randrange(len(attrs) + 1), (80, None))
        pkt = radius.build(code, rng.randrange(256), b'\0' * 16, attrs, sec, reqauth=rq)
        ops.append('op parse %s %s %s' % (hx(sec), hx(rq), hx(pkt)))
        # signed with a prefix of the secret (also: with what is left of its length in 8 bits, the empty secret for 256)
        for cut in (len(sec) % 256 if len(sec) >= 256 else len(sec) - 1, len(sec) // 2):
            forged = radius.build(code, rng.randrange(256), b'\0' * 16, attrs, sec[:cut], reqauth=rq)
            ops.append('op parse %s %s %s' % (hx(sec), hx(rq), hx(forged)))
        nbits = min(len(pkt), 64) * 8
        for bit in range(nbits):
            b = bytearray(pkt)
            b[bit // 8] ^= 1 << (bit % 8)
            ops.append('op parse %s %s %s' % (hx(sec), hx(rq), hx(b)))
        for _ in range(100):
            b = bytearray(pkt)
            i = rng.randrange(len(b))
            b[i] ^= 1 << rng.randrange(8)
            ops.append('op parse %s %s %s' % (hx(sec), hx(rq), hx(b)))
    ops += codec.parse_ops(rng, 30000 if tier == 'thorough' else 1500) + codec.interleaved_parse_ops(rng, 600 if tier == 'thorough' else 60)
    return batch(ops, 'rep', 100)

def generate(rng, tier):
    """the component-level cases, then the clause seen through the whole request/reply pipeline"""
    import pipeline, focus
    return generate_core(rng, tier) + focus.dynext_cases(rng, 200 if tier == 'thorough' else 12) + focus.never_sent_cases(rng, 200 if tier == 'thorough' else 12) + pipeline.guided_cases(rng, 300 if tier == 'thorough' else 20, pipeline.exchange_history, 'xchg')
