"""C13 generators: TTL decrement (direct), checkttl plain/vendor, addttl; pipeline cases are added by pipeline.py"""
import itertools
from common import *

TRUSTED_BASE = ['model of decttl/checkttl/addttlattr in coq/Model/Ttl.v (hand transcription of radsecproxy.c:955-1030)']
ASSUMPTIONS = ['attribute values handed to decttl are byte strings (each element < 256)']
RULE = ('direct decttl on every value of length 0..2, boundary patterns {0,1,2,254,255}^k for k=3,4, random longer values; '
        'checkttl/addttl on attribute lists with plain and vendor TTL among other (sub-)attributes; '
        'distinct = distinct implementation observation lines')

def vsa(vendor, subs, trailing=b''):
    b = vendor.to_bytes(4, 'big')
    for t, v in subs:
        b += bytes([t, len(v) + 2]) + v
    return b + trailing

def generate_core(rng, tier):
    ops = []
    # exhaustive lengths 0..2
    ops.append('op decttl -')
    for a in range(256):
        ops.append('op decttl %02x' % a)
    step = 1 if tier == 'thorough' else 1
    for a in range(0, 256, step):
        for b in range(256):
            ops.append('op decttl %02x%02x' % (a, b))
    pats = [0, 1, 2, 254, 255]
    for k in (3, 4):
        for t in itertools.product(pats, repeat=k):
            ops.append('op decttl ' + hx(t))
    if tier == 'thorough':
        for a in range(0, 256, 3):
            for b in (0, 1, 2, 255):
                for c in range(256):
                    ops.append('op decttl %02x%02x%02x' % (a, b, c))
    n = 40000 if tier == 'thorough' else 1500
    for _ in range(n):
        ln = rng.choice([3, 4, 4, 5, 8, 16, 64, 253])
        v = bytearray(rbytes(rng, ln))
        # bias towards carry chains
        z = rng.randrange(ln + 1)
        for i in range(ln - z, ln):
            v[i] = rng.choice([0, 0, 0, 1, 255])
        if rng.random() < 0.3:
            for i in range(0, ln - z):
                v[i] = 0
        ops.append('op decttl ' + hx(v))
    cases = batch(ops, 'dec', 2000)
    # checkttl / addttl
    ops = []
    m = 6000 if tier == 'thorough' else 500
    for _ in range(m):
        vendor_mode = rng.random() < 0.6
        t0 = rng.choice([27262, 27262, 311, 5, 1]) if vendor_mode else rng.choice([5, 200, 26, 1])
        t1 = rng.choice([1, 1, 2, 255]) if vendor_mode else 256
        attrs = []
        for _ in range(rng.randrange(0, 5)):
            kind = rng.random()
            if kind < 0.35:
                attrs.append((rng.choice([1, 4, 5, 31, 200]), rbytes(rng, rng.choice([0, 1, 2, 4, 6]))))
            elif kind < 0.8:
                ven = rng.choice([27262, 27262, 311, 9])
                subs = []
                for _ in range(rng.randrange(0, 4)):
                    subs.append((rng.choice([1, 1, 2, 3, 255]), bytes(rng.choice([0, 0, 1, 2, 255]) for _ in range(rng.choice([0, 1, 2, 4, 4])))))
                tr = rng.choice([b'', b'', b'', b'\x01', b'\x01\x01', b'\x01\x00'])
                attrs.append((26, vsa(ven, subs, tr)))
            else:
                attrs.append((26, rbytes(rng, rng.choice([0, 1, 3, 4, 5, 6]))))
        if not vendor_mode and rng.random() < 0.7:
            attrs.insert(rng.randrange(len(attrs) + 1), (t0 & 255, bytes(rng.choice([0, 0, 1, 2, 255]) for _ in range(rng.choice([0, 1, 2, 4, 4, 5])))))
        toks = ' '.join('%d:%s' % (t, hx(v)) for t, v in attrs)
        ops.append('op checkttl %d %d %s' % (t0, t1, toks))
        if rng.random() < 0.3:
            ops.append('op addttl %d %d %d %s' % (t0, t1, rng.choice([1, 2, 7, 255]), toks))
    cases += batch(ops, 'chk', 200)
    return cases

def vendor_stream(rng, tier):
    """the TTL inside a Vendor-Specific attribute, systematically: every value length 0..4 (and a few longer) x zero /
    one / other values x the TTL as only, first, middle, last sub-attribute x with and without a stray octet x with
    and without other attributes before it -- the shape of theorem C13_vendor_ttl (operation vttl)"""
    ops = []
    vals = []
    for ln in (0, 1, 2, 3, 4, 5, 8):
        vals.append(bytes(ln))
        if ln:
            vals.append(bytes(ln - 1) + b'\x01')
            vals.append(bytes(ln - 1) + b'\x02')
            vals.append(b'\x01' + bytes(ln - 1))
            vals.append(bytes(rng.randrange(256) for _ in range(ln)))
    others = [(2, b'\x05'), (3, b''), (255, b'\x00\x00\x00\x09'), (7, bytes(6))]
    for t0, t1, vb in ((27262, 1, '00006a7e'), (311, 2, '00000137'), (27262, 255, '00006a7e')):
        for v in vals:
            for pos in ('only', 'first', 'middle', 'last', 'twice'):
                o = [x for x in others if x[0] != t1]
                rng.shuffle(o)
                k = rng.randrange(1, len(o) + 1)
                a, b = o[:k], o[k:k + rng.randrange(0, 2) + 1]
                if pos == 'only': subs = [(t1, v)]
                elif pos == 'first': subs = [(t1, v)] + a
                elif pos == 'middle': subs = a + [(t1, v)] + (b or [(9, b'\x01')])
                elif pos == 'last': subs = a + [(t1, v)]
                else: subs = a + [(t1, v), (t1, b'\x00\x00\x00\x07')]
                for tr in ('-', '01') if pos in ('last', 'only') else ('-',):
                    pre = rng.choice([[], [(1, b'ab')], [(26, bytes.fromhex('00000009') + b'\x01\x03\x00')], [(26, b'\x00\x00')], [(4, bytes(4)), (26, bytes.fromhex('0000013a0106000000ff') if t0 != 314 else b'')]])
                    post = rng.choice([[], [(31, b'x')], [(26, bytes.fromhex(vb) + bytes([t1, 6, 0, 0, 0, 3]))]])
                    ops.append('op vttl %d %d %s %s P %s S %s Q %s' % (t0, t1, vb, tr,
                               ' '.join('%d:%s' % (t, hx(x)) for t, x in pre), ' '.join('%d:%s' % (t, hx(x)) for t, x in subs),
                               ' '.join('%d:%s' % (t, hx(x)) for t, x in post)))
    return batch(ops, 'vttl', 300)

def generate(rng, tier):
    """the component-level cases, then the clause seen through the whole request/reply pipeline"""
    import pipeline, focus
    return generate_core(rng, tier) + vendor_stream(rng, tier) + focus.loop_cases(rng, 240 if tier == 'thorough' else 24) + focus.reply_ttl_cases(rng, 300 if tier == 'thorough' else 24) + focus.dynext_cases(rng, 200 if tier == 'thorough' else 12) + pipeline.cases(rng, 300 if tier == 'thorough' else 20, nops=10)
