"""random rewrite blocks: abstract form -> radsecproxy.conf text + `cfg rewrite` line for the model"""
from common import *
import radius

MODS = [
    (r'^(.*)@(.*)$', [r'\2!\1', r'\1@example.org', r'\1', r'x\2\2\2y', r'\3\1']),
    (r'^([^@]*)@?(.*)$', [r'\1', r'\2', r'[\1|\2]']),
    (r'a', ['bb', '', r'\1']),
    (r'^(x)?(.*)$', [r'<\1>\2', r'\2\\', r'\a\2', 'lit\\']),
    (r'.*', ['L' * 250, 'L' * 253, 'L' * 254, 'L' * 300, r'\0\0']),
    (r'(.)(.)(.)(.)(.)(.)(.)(.)(.)', [r'\9\8\7\6\5\4\3\2\1', r'\1\1\1\1\1\1\1\1\1\1\1\1\1\1\1\1\1\1\1\1\1\1\1\1\1\1\1\1\1\1']),
    (r'^$', ['empty']),
    (r'ZZ', ['never']),
    (r'^(.{100,})$', [r'\1\1', r'\1\1\1']),
]

class Rw:
    def __init__(self, name):
        self.name = name
        self.wl = False
        self.rm = None       # list of types
        self.rmv = None      # list of (vendor, sub|256)
        self.add = []        # (t, value) plain
        self.addv = []       # (vendor, t, value)
        self.mod = []        # (t, regex, repl)
        self.modv = []       # (vendor, t, regex, repl)
        self.sup = []
        self.supv = []

    def nonempty(self):
        return bool(self.rm is not None or self.rmv is not None or self.add or self.addv or self.mod or self.modv or self.sup or self.supv)

    @staticmethod
    def val(v):
        return '%%' + bytes(v).hex() if len(v) else ''

    def conf_lines(self):
        l = ['rewrite %s {' % self.name]
        if self.wl:
            l.append('  whitelistMode on')
        for t in (self.rm or []):
            l.append('  %s %d' % ('whitelistAttribute' if self.wl else 'removeAttribute', t))
        for v, s in (self.rmv or []):
            l.append('  %s %s' % ('whitelistVendorAttribute' if self.wl else 'removeVendorAttribute', ('%d' % v) if s == 256 else '%d:%d' % (v, s)))
        for t, v in self.add:
            l.append('  addAttribute %d:%s' % (t, self.val(v)))
        for ven, t, v in self.addv:
            l.append('  addVendorAttribute %d:%d:%s' % (ven, t, self.val(v)))
        for t, rx, rp in self.mod:
            l.append('  modifyAttribute %d:/%s/%s/' % (t, rx, rp))
        for ven, t, rx, rp in self.modv:
            l.append('  modifyVendorAttribute %d:%d:/%s/%s/' % (ven, t, rx, rp))
        for t, v in self.sup:
            l.append('  supplementAttribute %d:%s' % (t, self.val(v)))
        for ven, t, v in self.supv:
            l.append('  supplementVendorAttribute %d:%d:%s' % (ven, t, self.val(v)))
        l.append('}')
        return l

    @staticmethod
    def vsa_tlv(ven, t, v):
        return (26, radius.vsa(ven & 0xffffff, [(t, v)]))

    def cfg_line(self):
        def tl(lst):
            return ','.join('%d:%s' % (t, hx(v)) for t, v in lst) or '-'
        adds = list(self.add) + [self.vsa_tlv(*x) for x in self.addv]
        sups = list(self.sup) + [self.vsa_tlv(*x) for x in self.supv]
        parts = ['cfg rewrite %s' % self.name, 'wl=%d' % (1 if self.wl else 0)]
        parts.append('rm=' + ('-' if self.rm is None else ','.join(str(t) for t in self.rm)))
        parts.append('rmv=' + ('-' if self.rmv is None else ','.join('%d:%d' % p for p in self.rmv)))
        parts.append('add=' + tl(adds))
        parts.append('mod=' + (','.join('%d:%s' % (t, hx(rp.encode('latin-1'))) for t, rx, rp in self.mod) or '-'))
        parts.append('modv=' + (','.join('%d:%d:%s' % (ven, t, hx(rp.encode('latin-1'))) for ven, t, rx, rp in self.modv) or '-'))
        parts.append('sup=' + tl(sups))
        return ' '.join(parts)

TYPES = [1, 2, 4, 5, 18, 25, 31, 33, 79, 80, 89, 126, 200, 255]
VENDORS = [9, 311, 27262, 16777215, 66000]

def random_rw(rng, name, allow80=False):
    rw = Rw(name)
    while not rw.nonempty():
        rw.wl = rng.random() < 0.3
        if rng.random() < 0.55:
            rw.rm = [t for t in rng.sample(TYPES, rng.randrange(1, 4)) if allow80 or t != 80] or [5]
        if rng.random() < 0.45:
            rw.rmv = [(rng.choice(VENDORS), rng.choice([256, 1, 2, 16, 17, 255])) for _ in range(rng.randrange(1, 4))]
        if rng.random() < 0.35:
            rw.add = [(rng.choice([18, 200, 25, 1]), rbytes(rng, rng.choice([0, 1, 4, 16, 253]))) for _ in range(rng.randrange(1, 3))]
        if rng.random() < 0.25:
            rw.addv = [(rng.choice(VENDORS), rng.choice([1, 2, 255]), rbytes(rng, rng.choice([0, 1, 4, 16, 247]))) for _ in range(rng.randrange(1, 3))]
        if rng.random() < 0.45:
            for _ in range(rng.randrange(1, 3)):
                rx, rps = rng.choice(MODS)
                rw.mod.append((rng.choice([1, 18, 31, 25, 200]), rx, rng.choice(rps)))
        if rng.random() < 0.3:
            for _ in range(rng.randrange(1, 3)):
                rx, rps = rng.choice(MODS)
                rw.modv.append((rng.choice(VENDORS[:3]), rng.choice([1, 2, 16]), rx, rng.choice(rps)))
        if rng.random() < 0.3:
            rw.sup = [(rng.choice([18, 200, 25, 1, 31]), rbytes(rng, rng.choice([0, 1, 4, 16]))) for _ in range(rng.randrange(1, 3))]
        if rng.random() < 0.3:
            rw.supv = [(rng.choice(VENDORS[:3]), rng.choice([1, 2, 3]), rbytes(rng, rng.choice([0, 1, 4]))) for _ in range(rng.randrange(1, 3))]
    return rw

def text_value(rng, n):
    alpha = b'abcxyzABC0123456789@@..-_! '
    return bytes(rng.choice(alpha) for _ in range(n))

def random_attrs(rng, rw=None, maxn=7):
    """attribute lists aimed at the rules of rw: listed and unlisted types, vendor attributes with
    well-formed / ill-formed sub-attributes, short vendor attributes, zero-length values, embedded NUL"""
    attrs = []
    types = list(TYPES) + [0, 26]
    if rw:
        types += [t for t in (rw.rm or [])] * 2 + [m[0] for m in rw.mod] * 3
    vendors = list(VENDORS)
    if rw:
        vendors += [v for v, _ in (rw.rmv or [])] * 2 + [m[0] for m in rw.modv] * 3 + [x[0] for x in rw.supv] * 2
    for _ in range(rng.randrange(0, maxn + 1)):
        k = rng.random()
        if k < 0.55:
            t = rng.choice(types)
            if t == 26:
                continue
            ln = rng.choice([0, 1, 3, 8, 16, 40, 120, 127, 128, 200, 252, 253])
            v = text_value(rng, ln) if rng.random() < 0.7 else rbytes(rng, ln)
            if ln > 3 and rng.random() < 0.1:
                v = v[:ln // 2] + b'\0' + v[ln // 2 + 1:]
            attrs.append((t, v))
        elif k < 0.9:
            ven = rng.choice(vendors) & 0xffffff
            subs = []
            for _ in range(rng.randrange(0, 4)):
                st = rng.choice([1, 2, 3, 16, 17, 255])
                sl = rng.choice([0, 1, 4, 16, 34, 60, 100, 240])
                subs.append((st, text_value(rng, sl)))
            b = radius.vsa(ven, subs)
            r = rng.random()
            if r < 0.15:
                b += bytes([rng.choice([1, 2, 16])])                 # one trailing byte
            elif r < 0.22:
                b += bytes([1, rng.choice([0, 1])])                  # sub-attribute length < 2
            elif r < 0.3:
                b += bytes([1, 50, 65])                              # sub-attribute overruns
            if len(b) > 253:
                b = b[:253]
            attrs.append((26, b))
        else:
            attrs.append((26, rbytes(rng, rng.choice([0, 1, 2, 3, 4, 5]))))   # short vendor attribute
    return attrs

def attrs_tokens(attrs):
    return ' '.join('%d:%s' % (t, hx(v)) for t, v in attrs)
