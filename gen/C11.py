"""C11: identifier allocation -- table filling, cursor wrap-around, id 0 reservation, replies, expiry, supersede"""
from common import *
import pipeline
TRUSTED_BASE = ['model of sendrq/_internal_sendrq/freerqoutdata/replyh in coq/Model/Proxy.v; the cursor is positioned directly (op cursor) to reach wrap-around states without 250 preceding requests in most cases']
ASSUMPTIONS = ['sequential semantics: one handler at a time per slot (the per-slot lock is not modelled)']
RULE = 'histories of requests from several clients towards few servers with the cursor near 0/1/255/256, more than 256 outstanding requests (table full, drop), replies freeing slots, expiry by writer passes, superseding by the client, in all four status-server modes'

def fill_history(rng, cfg, nreq, cursor=None):
    ops = []
    now = 1000005
    s0 = rng.randrange(len(cfg.servers))
    if cursor is not None:
        ops.append('op cursor %d %d' % (s0, cursor))
    idc = {}
    sent = []
    for k in range(nreq):
        c = rng.randrange(len(cfg.clients))
        # distinct (client, id) so that nothing is a duplicate unless intended
        i = idc.get(c, rng.randrange(256))
        idc[c] = (i + 1) % 256
        code = rng.choice([1, 1, 1, 4])
        pkt, info = pipeline.clean_request(rng, cfg, c, code=code, ident=i, ma=rng.random() < 0.7)
        ops.append('op cpkt %d %d %s %s' % (c, now, pipeline.rnd40(rng), hx(pkt)))
        sent.append((c, i, code, info))
        r = rng.random()
        if r < 0.10:
            s = rng.randrange(len(cfg.servers))
            ops.append('op wpass %d %d %s' % (s, now, pipeline.rnd40(rng)))
        elif r < 0.22:
            s = rng.randrange(len(cfg.servers))
            ident = rng.choice([0, 1, 2, 254, 255, rng.randrange(256)])
            ops.append('op sreply %d %d %d %s %d - 80:auto' % (s, ident, now, pipeline.rnd40(rng), rng.choice([2, 3, 5])))
        elif r < 0.27 and sent:
            # the client reuses an identifier with a new authenticator: supersedes the old request
            c2, i2, code2, info2 = rng.choice(sent)
            pkt2, _ = pipeline.clean_request(rng, cfg, c2, code=code2, ident=i2, uname=info2['uname'])
            ops.append('op cpkt %d %d %s %s' % (c2, now + 11, pipeline.rnd40(rng), hx(pkt2)))
        elif r < 0.30:
            now += rng.choice([1, 30, 61, 200])
            for s in range(len(cfg.servers)):
                ops.append('op wpass %d %d %s' % (s, now, pipeline.rnd40(rng)))
        elif r < 0.32:
            ops.append('op cursor %d %d' % (rng.randrange(len(cfg.servers)), rng.choice([0, 1, 2, 254, 255, 256])))
        if rng.random() < 0.1:
            now += 1
    return ops

def full_history(rng, cfg):
    """more than 256 requests towards ONE server, then replies free a few identifiers, the dropped requests are
    retransmitted, further new requests arrive"""
    ops = []
    now = 1000005
    uname = pipeline.routable_name(rng, cfg)
    nreq = rng.randrange(257, 275)
    sent = []
    idc = {}
    def newreq(c=None, ident=None):
        c = rng.randrange(len(cfg.clients)) if c is None else c
        if ident is None:
            ident = idc.get(c, rng.randrange(256))
            idc[c] = (ident + 1) % 256
        pkt, info = pipeline.clean_request(rng, cfg, c, code=1, ident=ident, uname=uname, ma=True)  # always acceptable: the table must really fill up
        ops.append('op cpkt %d %d %s %s' % (c, now, pipeline.rnd40(rng), hx(pkt)))
        sent.append((c, pkt))
    for k in range(nreq):
        newreq()
    dropped = sent[250:]
    target = None
    for r in cfg.realms:
        if uname.decode().endswith('@' + r.name) and r.srv:
            target = r.srv[0]
            break
    target = 0 if target is None else target
    for _ in range(rng.randrange(1, 5)):
        ident = rng.choice([1, 2, 3, 100, 254, 255, rng.randrange(256)])
        ops.append('op sreply %d %d %d %s %d - 80:auto' % (target, ident, now, pipeline.rnd40(rng), rng.choice([2, 3])))
    for c, pkt in rng.sample(dropped, min(len(dropped), 4)):
        ops.append('op cpkt %d %d %s %s' % (c, now + rng.choice([0, 1]), pipeline.rnd40(rng), hx(pkt)))
    for c, pkt in rng.sample(sent[:50], 3):
        ops.append('op cpkt %d %d %s %s' % (c, now, pipeline.rnd40(rng), hx(pkt)))
    for _ in range(3):
        newreq()
    return ops

def reconnect_history(rng, cfg):
    """a stream server loses its connection while requests are outstanding -- also the one holding identifier 0 when
    status-server is off: after the reconnect every one of them is sent again and keeps its identifier, nobody else
    gets it"""
    ops = []
    now = 1000005
    idc = rng.randrange(256)
    def rq():
        nonlocal idc
        pkt, _ = pipeline.clean_request(rng, cfg, 0, code=1, ident=idc, ma=True)
        idc = (idc + 1) % 256
        ops.append('op cpkt 0 %d %s %s' % (now, pipeline.rnd40(rng), hx(pkt)))
    for _ in range(rng.randrange(1, 4)):
        rq()
    ops.append('op wpass 0 %d %s' % (now, pipeline.rnd40(rng)))
    ops.append('op reconnect 0')
    if rng.random() < 0.5:
        rq()
    ops.append('op wpass 0 %d %s' % (now + 1, pipeline.rnd40(rng)))
    for _ in range(rng.randrange(1, 4)):
        rq()
    ops.append('op wpass 0 %d %s' % (now + 2, pipeline.rnd40(rng)))
    ops.append('op sreply 0 0 %d %s 2 - 80:auto' % (now + 2, pipeline.rnd40(rng)))
    rq()
    return ops

def generate(rng, tier):
    def modstream(rng, cfg):
        for s in cfg.servers:
            s.statsrv = rng.choice([0, 0, 1, 2, 3])
            s.type = pipeline.T_TCP
            s.retrycount = None
        for r in cfg.realms:
            r.srv = [0]; r.acc = [0]
        for c in cfg.clients:
            c.dupint = None; c.reqma = False; c.reqmap = False
    def mod(rng, cfg):
        for s in cfg.servers:
            s.statsrv = rng.randrange(4)
            s.type = pipeline.T_UDP
        cfg.rewrites = [rw for rw in cfg.rewrites]
        for r in cfg.realms:
            if not r.srv:
                r.srv = [0]
            if not r.acc:
                r.acc = list(r.srv)
        for c in cfg.clients:
            c.dupint = rng.choice([None, 0, 1])
    out = []
    nsmall = 400 if tier == 'thorough' else 40
    nfull = 24 if tier == 'thorough' else 3
    out += pipeline.guided_cases(rng, nsmall, lambda r, c: fill_history(r, c, r.randrange(4, 16), cursor=r.choice([0, 1, 250, 253, 254, 255, 256, None])), 'wrap', cfgmod=mod)
    def modfull(rng, cfg):
        mod(rng, cfg)
        for c in cfg.clients:
            c.dupint = rng.choice([None, 5, 30])
    out += pipeline.guided_cases(rng, nfull, full_history, 'full', rich=False, cfgmod=modfull)
    out += pipeline.guided_cases(rng, 120 if tier == 'thorough' else 12, reconnect_history, 'reconn', rich=False, cfgmod=modstream)
    return out
