"""RADIUS packet construction for the generators (hashlib MD5 / HMAC-MD5; independent of radsecproxy)"""
import hashlib, hmac, struct

def attr(t, v):
    v = bytes(v)
    return bytes([t & 255, (len(v) + 2) & 255]) + v

def vsa(vendor, subs, trailing=b''):
    b = struct.pack('>I', vendor)
    for t, v in subs:
        b += bytes([t & 255, (len(v) + 2) & 255]) + bytes(v)
    return b + trailing

def raw_packet(code, ident, auth, attrs_bytes, length=None):
    n = 20 + len(attrs_bytes) if length is None else length
    return bytes([code & 255, ident & 255]) + struct.pack('>H', n & 0xffff) + bytes(auth) + attrs_bytes

def encode_attrs(attrs):
    return b''.join(attr(t, v) for t, v in attrs)

def build(code, ident, auth, attrs, secret, reqauth=None, sign=True, msgauth=True, acct=True):
    """attrs: list of (type, value).  A value of None for type 80 means 'compute it'.
    reqauth: for replies, the request authenticator (used for response auth and for the MA computation).
    Returns packet bytes."""
    attrs2 = [(t, (b'\0' * 16 if (t == 80 and v is None) else v)) for t, v in attrs]
    body = encode_attrs(attrs2)
    hdr_auth = bytes(auth)
    if code in (2, 3, 11, 5, 41, 42, 44, 45) and reqauth is not None:
        hdr_auth = bytes(reqauth)
    if code == 4 and acct:
        hdr_auth = b'\0' * 16
    pkt = bytearray(raw_packet(code, ident, hdr_auth, body))
    # message authenticators to compute
    if msgauth:
        off = 20
        offs = []
        for (t, v), (t2, v2) in zip(attrs, attrs2):
            if t == 80 and v is None:
                offs.append(off + 2)
            off += 2 + len(v2)
        for o in offs:
            mac = hmac.new(bytes(secret), bytes(pkt), hashlib.md5).digest()
            pkt[o:o + 16] = mac
            # NB with several computed MAs only the last is valid unless the others are zero while computing;
            # callers use at most one computed MA per packet.
    if sign and (code in (2, 3, 11, 5, 41, 42, 44, 45) and reqauth is not None):
        d = hashlib.md5(bytes(pkt[:4]) + bytes(reqauth) + bytes(pkt[20:]) + bytes(secret)).digest()
        pkt[4:20] = d
    elif code == 4 and acct and sign:
        d = hashlib.md5(bytes(pkt[:4]) + b'\0' * 16 + bytes(pkt[20:]) + bytes(secret)).digest()
        pkt[4:20] = d
    return bytes(pkt)

def pwd_encrypt(plain, secret, auth, salt=b''):
    """RFC 2865 5.2 / RFC 2868 3.5"""
    p = bytes(plain)
    if len(p) % 16:
        p += b'\0' * (16 - len(p) % 16)
    out = b''
    prev = bytes(auth) + bytes(salt)
    for i in range(0, len(p), 16):
        h = hashlib.md5(bytes(secret) + prev).digest()
        c = bytes(a ^ b for a, b in zip(h, p[i:i + 16]))
        out += c
        prev = c
    return out
