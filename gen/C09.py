"""C09 generators: server selection vectors"""
import itertools
from common import *
TRUSTED_BASE = ['model of choosesrvconf in coq/Model/Choose.v (hand transcription of radsecproxy.c choosesrvconf)']
ASSUMPTIONS = ['server lists are statically configured (no dynamic placeholder) for the spec; placeholder entries are compared model-vs-code only']
RULE = ('all vectors of length 1..3 over 5 states x lost counts {0,1,2,8,15,16} (exhaustive), random vectors of length 4..6 over 0..16(+17,255), '
        'some with dynamic placeholders; distinct = distinct implementation observation lines')
LOST = [0, 1, 2, 8, 15, 16]
def generate_core(rng, tier):
    ops = []
    ents = ['%d:%d' % (s, l) for s in range(5) for l in LOST]
    for k in (1, 2):
        for v in itertools.product(ents, repeat=k):
            ops.append('op choose ' + ' '.join(v))
    if tier == 'thorough':
        for v in itertools.product(ents, repeat=3):
            ops.append('op choose ' + ' '.join(v))
    else:
        for _ in range(3000):
            ops.append('op choose ' + ' '.join(rng.choice(ents) for _ in range(3)))
    n = 200000 if tier == 'thorough' else 4000
    for _ in range(n):
        k = rng.choice([3, 4, 4, 5, 6])
        v = []
        # bias: mostly connected servers with non-zero counts so that the minimum rule is exercised
        mode = rng.random()
        for _ in range(k):
            if mode < 0.5:
                st = rng.choice([2, 2, 2, 1, 4, 0, 3])
                lo = rng.choice([1, 2, 3, 4, 5, 7, 15, 16, 16])
            else:
                st = rng.randrange(5)
                lo = rng.choice(list(range(17)) + [0, 0, 17, 255])
            v.append('%d:%d' % (st, lo))
        if rng.random() < 0.05:
            v[rng.randrange(k)] = 'dyn'
        ops.append('op choose ' + ' '.join(v))
    return batch(ops, 'ch', 1000)

def generate(rng, tier):
    """the component-level cases, then the clause seen through the whole request/reply pipeline"""
    import pipeline, focus
    return generate_core(rng, tier) + focus.probe_reset_cases(rng, 300 if tier == 'thorough' else 20) + __import__('C12').conn_cases(rng, 200 if tier == 'thorough' else 16) + pipeline.cases(rng, 300 if tier == 'thorough' else 20, nops=12)
