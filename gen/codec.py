"""generators for the codec operations (parse / ser), shared by C04, C05, C06"""
from common import *
import radius

def rand_attrs(rng, maxn=6, big=False):
    attrs = []
    for _ in range(rng.randrange(0, maxn + 1)):
        t = rng.choice([0, 1, 2, 4, 18, 26, 31, 33, 79, 89, 126, 255, rng.randrange(256)])
        ln = rng.choice([0, 1, 2, 4, 15, 16, 17, 32] + ([127, 128, 129, 252, 253] if big else []))
        attrs.append((t, rbytes(rng, ln)))
    return attrs

def secret_of(rng):
    return rbytes(rng, rng.choice([1, 2, 8, 15, 16, 17, 63, 64, 65, 255, 256, 257, 300, 511, 600]))   # a configuration line holds up to 2047 characters

def mutate(rng, pkt):
    b = bytearray(pkt)
    k = rng.random()
    if k < 0.35 and len(b) > 0:
        i = rng.randrange(len(b)) if rng.random() < 0.5 else rng.randrange(min(len(b), 64))
        b[i] ^= 1 << rng.randrange(8)
    elif k < 0.5:
        # length field off by small amounts
        n = (b[2] << 8 | b[3]) + rng.choice([-2, -1, 1, 2, 18])
        b[2], b[3] = (n >> 8) & 255, n & 255
    elif k < 0.65:
        b += rbytes(rng, rng.choice([1, 1, 2, 3]))          # trailing bytes (length field unchanged)
    elif k < 0.8:
        # trailing byte(s) WITH length field adjusted
        extra = rbytes(rng, rng.choice([1, 1, 2]))
        b += extra
        n = len(b)
        b[2], b[3] = (n >> 8) & 255, n & 255
    elif k < 0.9 and len(b) > 21:
        # attribute length byte tampering
        i = 21
        b[i] = rng.choice([0, 1, 2, 3, 255, b[i] + 1 & 255])
    else:
        b = b[:rng.randrange(20, len(b) + 1)]
    return bytes(b)

def parse_ops(rng, n):
    ops = []
    for _ in range(n):
        sec = secret_of(rng)
        code = rng.choice([1, 1, 2, 3, 4, 4, 5, 11, 12, 40, 43, rng.randrange(256)])
        attrs = rand_attrs(rng, big=rng.random() < 0.2)
        # message-authenticator placement: none / one valid / invalid / wrong length / two
        ma = rng.random()
        if ma < 0.3:
            attrs.insert(rng.randrange(len(attrs) + 1), (80, None))
        elif ma < 0.4:
            attrs.insert(rng.randrange(len(attrs) + 1), (80, rbytes(rng, 16)))
        elif ma < 0.5:
            attrs.insert(rng.randrange(len(attrs) + 1), (80, rbytes(rng, rng.choice([0, 1, 15, 17, 18]))))
        elif ma < 0.6:
            attrs.insert(rng.randrange(len(attrs) + 1), (80, rbytes(rng, 16)))
            attrs.insert(rng.randrange(len(attrs) + 1), (80, None))
        auth = rbytes(rng, 16)
        reqauth = rbytes(rng, 16) if rng.random() < 0.5 else None
        pkt = radius.build(code, rng.randrange(256), auth, attrs, sec, reqauth=reqauth)
        rqtok = '-' if reqauth is None else hx(reqauth)
        r = rng.random()
        if r < 0.45:
            pass
        elif r < 0.55:
            sec2 = secret_of(rng)          # signed with another secret
            pkt = radius.build(code, pkt[1], auth, attrs, sec2, reqauth=reqauth)
        elif r < 0.6 and reqauth is not None:
            rqtok = hx(rbytes(rng, 16))     # reply to another request
        else:
            pkt = mutate(rng, pkt)
        if len(pkt) < 20:
            pkt = pkt + b'\0' * (20 - len(pkt))
        ops.append('op parse %s %s %s' % (hx(sec), rqtok, hx(pkt)))
    return ops

def ser_ops(rng, n):
    ops = []
    for _ in range(n):
        code = rng.choice([1, 2, 3, 4, 5, 11, 12, 42, 45, 40, rng.randrange(256)])
        attrs = rand_attrs(rng, maxn=8, big=rng.random() < 0.4)
        attrs = [(t, v) for t, v in attrs if t != 80]
        ma = rng.random()
        if ma < 0.5:
            attrs.insert(0 if rng.random() < 0.7 else rng.randrange(len(attrs) + 1), (80, b'\0' * 16))
        elif ma < 0.55:
            attrs.append((80, rbytes(rng, 16)))
            attrs.insert(0, (80, rbytes(rng, 16)))
        if rng.random() < 0.1:
            # near the size limit
            total = 20 + sum(2 + len(v) for t, v in attrs)
            target = rng.choice([4090, 4094, 4095, 4096, 4097, 4100, 4114])
            while total + 255 <= target:
                attrs.append((rng.choice([1, 18, 25]), rbytes(rng, 253)))
                total += 255
            if target - total >= 2:
                attrs.append((25, rbytes(rng, target - total - 2)))
        toks = ' '.join('%d:%s' % (t, hx(v)) for t, v in attrs)
        auth = b'\0' * 16 if (code == 4 and rng.random() < 0.9) else rbytes(rng, 16)
        ops.append('op ser %d %d %s %s %s' % (code, rng.randrange(256), hx(auth), hx(secret_of(rng)), toks))
    return ops


def interleaved_parse_ops(rng, n):
    """C05/C04: the verdict on a packet whose Message-Authenticator (or authenticator) is forged must not depend on another
    reader thread verifying an authentic packet at the same moment: after the k-th mutex unlock of the first parse a
    complete second parse takes place (k = 1..4 covers the authenticator and the Message-Authenticator checks)"""
    ops = []
    for i in range(n):
        sec, sec2 = secret_of(rng), secret_of(rng)
        reply = (i % 2 == 1)
        code = rng.choice([2, 3, 11]) if reply else 1
        rqa = rbytes(rng, 16) if reply else None
        attrs = [(1, b'mallory@victim.org'), (80, None)]
        good = radius.build(code, rng.randrange(256), rbytes(rng, 16), attrs, sec, reqauth=rqa)
        kind = i % 3
        if kind == 0:
            forged = radius.build(code, good[1], good[4:20] if not reply else b'\0' * 16, [(1, b'mallory@victim.org'), (80, rbytes(rng, 16))], sec, reqauth=rqa)
        elif kind == 1:
            forged = radius.build(code, good[1], rbytes(rng, 16), attrs, sec2, reqauth=rqa)      # everything under another secret
        else:
            forged = good
        # the other thread's packet: authentic, its own secret
        hsec = rng.choice([sec, sec2])
        hrq = rbytes(rng, 16) if rng.random() < 0.5 else None
        other = radius.build(rng.choice([1, 2]) if hrq else 1, rng.randrange(256), rbytes(rng, 16), [(1, b'alice@example.com'), (80, None)], hsec, reqauth=hrq)
        for k in (1, 2, 3, 4):
            ops.append('op parsei %d %s %s %s %s %s %s' % (k, hx(sec), '-' if rqa is None else hx(rqa), hx(forged), hx(hsec), '-' if hrq is None else hx(hrq), hx(other)))
    return ops
