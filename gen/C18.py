"""C18: reply log line and F-Ticks record through the real replylog / fticks_log"""
from common import *
TRUSTED_BASE = ['model of radattr2ascii, replylog field assembly, fticks_hashmac, fticks_log in coq/Model/Log.v; SHA-256/HMAC-SHA-256 are oracles in Coq and ocaml/sha256.ml in the driver',
                'the fixed text of the log formats is reproduced in the driver (ocaml/ops.ml op_logline); log output is captured through a file log destination']
ASSUMPTIONS = ['hash functions return byte strings', 'block names, prefixes and country codes come from the configuration and are printable']
RULE = 'attribute values over every octet, lengths 0..253, station ids shorter/longer than a MAC and with ";", six MAC modes x keyed/unkeyed x F-Ticks levels; distinct = distinct implementation observation lines'

def value(rng, kind):
    r = rng.random()
    if kind == 'mac':
        m = '-'.join('%02X' % rng.randrange(256) for _ in range(6)).encode()
        if r < 0.3:
            return m
        if r < 0.45:
            return m.lower().replace(b'-', b':') + b';ssid-' + rbytes(rng, 3)
        if r < 0.55:
            return m[:rng.randrange(0, 9)]
        if r < 0.65:
            return m + b';' + b'x' * rng.choice([1, 40, 100, 200])
    ln = rng.choice([0, 1, 2, 5, 8, 9, 10, 17, 40, 64, 65, 66, 116, 117, 200, 253])
    if r < 0.8:
        alpha = b'abcXYZ019@@.-_;%\n\r\t\x00\x7f\x80\xff ='
        return bytes(rng.choice(alpha) for _ in range(ln))
    return rbytes(rng, ln)

def generate(rng, tier):
    ops = []
    for b in range(256):
        ops.append('op logline reply 1 1 - 0 2 1 | 1:%s 31:%s | 18:%s' % (hx(b'u' + bytes([b]) + b'@r'), hx(bytes([b]) * 3), hx(bytes([b]))))
    n = 40000 if tier == 'thorough' else 1500
    for _ in range(n):
        kind = rng.choice(['reply', 'reply', 'fticks'])
        mode = rng.randrange(6)
        key = hx(bytes(rng.randrange(1, 256) for _ in range(rng.choice([1, 8, 32, 64, 65, 100])))) if mode in (3, 5) or rng.random() < 0.2 else '-'
        if mode in (3, 5) and key == '-':
            key = '6b'
        rq = []
        if rng.random() < 0.9:
            rq.append('1:' + hx(value(rng, 'user')))
        if rng.random() < 0.85:
            rq.append('31:' + hx(value(rng, 'mac')))
        if rng.random() < 0.3:
            rq.append('126:' + hx(value(rng, 'op')))
        if rng.random() < 0.2:
            rq.append('31:' + hx(value(rng, 'mac')))
        rp = []
        if rng.random() < 0.4:
            rp.append('18:' + hx(value(rng, 'msg')))
        if rng.random() < 0.3:
            rp.append('89:' + hx(value(rng, 'cui')))
        rng.shuffle(rq)
        if kind == 'fticks' and rng.random() < 0.2:
            # no FTicksMAC line: the default mode needs (and uses) the key
            if key == '-':
                key = '6b6579'
            ops.append('op logline fticks %d d %s %d %d %d | %s | %s' % (rng.randrange(2), key, rng.choice([1, 2]),
                       rng.choice([2, 2, 3, 5, 11]), rng.choice([1, 4]), ' '.join(rq), ' '.join(rp)))
        ops.append('op logline %s %d %d %s %d %d %d | %s | %s' % (kind, rng.randrange(2), mode, key, rng.choice([1, 2]),
                   rng.choice([2, 2, 3, 5, 11]), rng.choice([1, 4]), ' '.join(rq), ' '.join(rp)))
        if kind == 'reply' and rng.random() < 0.25:
            # the line written when a request is abandoned without an answer: replylog(request, server, request)
            ops.append('op logline reply %d %d %s 1 1 1 | %s | %s' % (rng.randrange(2), mode, key, ' '.join(rq), ' '.join(rq)))
    return [(cid, ['cfg nopipe'] + l) for cid, l in batch(ops, 'log', 40)]
