"""C12: retry / abandon / lost counting -- guided writer schedules around the expiry instants"""
from common import *
import pipeline
TRUSTED_BASE = ['model of clientwr (slot_action, slots_pass, writer_iteration, prewait) in coq/Model/Proxy.v; the real clientwr thread is parked in the wrapped pthread_cond_timedwait and released once per wpass op; gettimeofday is scripted']
ASSUMPTIONS = ['the writer thread is woken no later than the time it asked for (kernel); one writer per server']
RULE = 'RetryCount 0..10, RetryInterval 1..60, all four StatusServer modes, UDP and TCP servers; writer visits at expiry-1, expiry, expiry+1 and far later; failed transmissions, connection resets, replies between retries'

def retry_history(rng, cfg):
    sh = pipeline.Shadow(cfg)
    ops = []
    now = 1000005
    live = []     # (server, id, last expected expiry)
    nreq = rng.choice([1, 1, 2, 3])
    for _ in range(nreq):
        c = rng.randrange(len(cfg.clients))
        code = rng.choice([1, 1, 4])
        pkt, info = pipeline.clean_request(rng, cfg, c, code=code, pwdlen=rng.choice([None, 8]))
        ops.append('op cpkt %d %d %s %s' % (c, now, pipeline.rnd40(rng), hx(pkt)))
        fw = sh.forwarded(c, info)
        if fw:
            live.append(fw)
        now += rng.choice([0, 0, 1])
    targets = sorted(set(s for s, _ in live)) or [0]
    for s in targets:
        ri, rc = cfg.retry_defaults(cfg.servers[s])
        exp = None
        steps = rng.randrange(3, rc + 6)
        for k in range(steps):
            r = rng.random()
            if exp is None:
                t = now
            elif r < 0.25:
                t = exp - 1
            elif r < 0.6:
                t = exp
            elif r < 0.8:
                t = exp + 1
            elif r < 0.9:
                t = exp + ri * rng.choice([1, 2, 5])
            else:
                t = now
            t = max(t, now)
            now = t
            mode = rng.choice(['', '', '', '', '', '', '', ' tick', ' tick', ' putfail'])
            ops.append('op wpass %d %d %s%s' % (s, now, pipeline.rnd40(rng), mode))
            if mode == ' tick':
                now += len(live) + 1          # the clock has moved by one second per transmission
            if exp is None or now >= exp:
                exp = now + ri
            x = rng.random()
            if x < 0.08:
                ops.append('op reconnect %d' % s)
                exp = now
            elif x < 0.16 and live:
                sv, i = rng.choice(live)
                ops.append('op sreply %d %d %d %s %d - 80:auto' % (sv, i, now, pipeline.rnd40(rng), rng.choice([2, 3, 5])))
            elif x < 0.22:
                # answer a status-server probe (identifier 0)
                ops.append('op sreply %d 0 %d %s %d - 80:auto' % (s, now, pipeline.rnd40(rng), rng.choice([2, 5])))
            elif x < 0.26:
                ops.append('op srvset %d %d %d' % (s, rng.randrange(5), rng.choice([0, 1, 5, 16])))
    return ops

def connect_history(rng, cfg):
    """the connection of a stream server is re-established by the real connecter (tcpconnect) while requests are
    outstanding; the writer is woken any number of times while the connection is being made (a new request, a timer)
    and once after it is up: every request still outstanding goes out again on the new connection and keeps its count"""
    ops = []
    now = 1000005
    idc = rng.randrange(256)
    def rq():
        nonlocal idc
        pkt, _ = pipeline.clean_request(rng, cfg, 0, code=rng.choice([1, 1, 4]), ident=idc, ma=True)
        idc = (idc + 1) % 256
        ops.append('op cpkt 0 %d %s %s' % (now, pipeline.rnd40(rng), hx(pkt)))
    for _ in range(rng.randrange(1, 4)):
        rq()
    ops.append('op wpass 0 %d %s' % (now, pipeline.rnd40(rng)))
    for cycle in range(rng.choice([1, 1, 2])):
        ops.append('op connbegin 0')
        for _ in range(rng.choice([0, 1, 1, 2, 3])):
            if rng.random() < 0.4:
                rq()
            now += rng.choice([0, 1, 2, 2, 70])
            ops.append('op wpass 0 %d %s putfail' % (now, pipeline.rnd40(rng)))
        ops.append('op connend 0')
        now += rng.choice([0, 1])
        ops.append('op wpass 0 %d %s' % (now, pipeline.rnd40(rng)))
        if rng.random() < 0.5:
            rq()
            ops.append('op wpass 0 %d %s' % (now, pipeline.rnd40(rng)))
    if rng.random() < 0.5:
        ops.append('op sreply 0 %d %d %s 2 - 80:auto' % ((idc - 1) % 256, now, pipeline.rnd40(rng)))
    return ops

def conn_cases(rng, n):
    def modstream(rng, cfg):
        for s in cfg.servers:
            s.statsrv = rng.choice([0, 0, 1, 2, 3])
            s.type = pipeline.T_TCP
            s.retrycount = rng.choice([None, 0])
            s.retryint = rng.choice([None, 5, 30, 60])
        for r in cfg.realms:
            r.srv = [0]; r.acc = [0]
        for c in cfg.clients:
            c.dupint = None; c.reqma = False; c.reqmap = False
    return pipeline.guided_cases(rng, n, connect_history, 'conn', rich=False, cfgmod=modstream)

def generate(rng, tier):
    def modstream(rng, cfg):
        for s in cfg.servers:
            s.statsrv = rng.choice([0, 0, 1, 2, 3])
            s.type = pipeline.T_TCP
            s.retrycount = rng.choice([None, 0])
            s.retryint = rng.choice([None, 5, 30, 60])
        for r in cfg.realms:
            r.srv = [0]; r.acc = [0]
        for c in cfg.clients:
            c.dupint = None; c.reqma = False; c.reqmap = False
    def mod(rng, cfg):
        for s in cfg.servers:
            s.retrycount = rng.choice([None, 0, 0, 1, 2, 3, 5, 10])
            s.retryint = rng.choice([None, 1, 2, 5, 30, 60])
            s.statsrv = rng.randrange(4)
            s.type = rng.choice([pipeline.T_UDP, pipeline.T_UDP, pipeline.T_TCP])
            if s.type == pipeline.T_TCP:
                s.retrycount = rng.choice([None, 0])      # the parser allows 0 only for stream transports
        for r in cfg.realms:
            if not r.srv:
                r.srv = [0]
            if not r.acc:
                r.acc = list(r.srv)
    n = 1500 if tier == 'thorough' else 80
    import focus
    return (pipeline.guided_cases(rng, n, retry_history, 'retry', cfgmod=mod) + focus.dynext_cases(rng, 200 if tier == 'thorough' else 16)
            + pipeline.guided_cases(rng, 200 if tier == 'thorough' else 16, connect_history, 'conn', rich=False, cfgmod=modstream))
