"""C02: replies return to the originating client -- pipeline histories"""
from common import *
import pipeline
TRUSTED_BASE = ['model of radsrv/replyh/sendrq/clientwr in coq/Model/Proxy.v (hand transcription); MD5 and regex oracles']
ASSUMPTIONS = ['sequential semantics (one handler at a time); UDP/TCP peers']
RULE = 'random configurations (through the real parser) and histories of requests from several clients, writer passes, signed/corrupted replies; distinct = distinct implementation observation lines'
def generate(rng, tier):
    def mod(rng, cfg):
        # exercise User-Name restoration and multi-client multiplexing
        for c in cfg.clients:
            if rng.random() < 0.5:
                c.rwuser = rng.choice([(r'^(.*)$', r'\1.inner'), (r'^([^@]*)@(.*)$', r'\1+x@\2'), (r'^(.*)@(.*)$', r'\1@\2'),
                                       # a rewrite that changes letter case only (the expressions are compiled case-insensitively)
                                       (r'^(.*)@example\.com$', r'\1@example.com'), (r'^(.*)@other\.org$', r'\1@other.org'), (r'^(.*)@b\.example\.com$', r'\1@b.example.com')])
            c.dupint = rng.choice([None, 1, 2, 10])
        for r in cfg.realms:
            if not r.srv:
                r.srv = [0]
    n = 1200 if tier == 'thorough' else 50
    import focus
    return (pipeline.guided_cases(rng, n, pipeline.exchange_history, 'xchg', cfgmod=mod) + pipeline.cases(rng, n // 2, nops=16)
            + focus.username_restore_cases(rng, 120 if tier == 'thorough' else 12)
            # the client association a reply goes back to is decided at arrival (UDP: source address AND port, both families)
            + __import__('C10').udp_cases(rng, 120 if tier == 'thorough' else 12))
