"""C02: replies return to the originating client -- pipeline histories"""
from common import *
import pipeline
TRUSTED_BASE = ['model of radsrv/replyh/sendrq/clientwr in coq/Model/Proxy.v (hand transcription); MD5 and regex oracles']
ASSUMPTIONS = ['sequential semantics (one handler at a time); UDP/TCP peers']
RULE = 'random configurations (through the real parser) and histories of requests from several clients, writer passes, signed/corrupted replies; distinct = distinct implementation observation lines'
def generate(rng, tier):
    return pipeline.cases(rng, 1500 if tier == 'thorough' else 60, nops=16)
