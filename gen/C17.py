"""C17: request lifetime and lock order -- all short orders of the lifetime events, long random histories with
client disconnects, and the failed-discovery flush of a dynamically discovered server"""
from common import *
import itertools
import pipeline
TRUSTED_BASE = ['reference accounting of the model (Proxy.rc_ok) and of the implementation dump; lock classes are assigned by mutex address in harness/hlock.inc; request objects tracked from newrequest to free() by a macro redirection inside the harness translation unit']
ASSUMPTIONS = ['handlers run one at a time (the real writer threads are stepped deterministically); true concurrent interleavings are not explored']
RULE = 'every order (up to the depth bound) of {request, retransmission, id reuse, a packet of an unsupported code with the same identifier, other client, reply, bogus reply, writer pass, timer step, reconnect, client disconnect, drain, stray reply}; random long histories; dynamic-server discovery failure with 1..6 queued requests'

def base_cfg(rng, statsrv=0, dupint=10, tcp=False):
    cfg = pipeline.Cfg()
    for i in range(2):
        c = pipeline.Client(i, 'cl%d' % i)
        c.secret = b'shared'
        c.dupint = dupint
        cfg.clients.append(c)
    s = pipeline.Server(0, 'srv0')
    s.statsrv = statsrv
    s.retryint = 5
    if tcp:
        s.type = pipeline.T_TCP
        s.retrycount = 0
    else:
        s.retrycount = 1
    cfg.servers.append(s)
    r = pipeline.Realm('example.com')
    r.srv = [0]; r.acc = [0]
    cfg.realms.append(r)
    return cfg

def event_ops(rng, cfg, word):
    """expand a word over the event alphabet into operations"""
    ops = []
    now = 1000005
    uname = b'bob@example.com'
    r0, _ = pipeline.clean_request(rng, cfg, 0, code=1, ident=1, uname=uname)
    r1, _ = pipeline.clean_request(rng, cfg, 0, code=1, ident=1, uname=uname)
    r2, _ = pipeline.clean_request(rng, cfg, 1, code=1, ident=1, uname=uname)
    # a packet of a code the proxy does not forward (Access-Accept sent by a client) carrying the Identifier of the request
    ru, _ = pipeline.clean_request(rng, cfg, 0, code=rng.choice([2, 5, 3, 11, 40]), ident=1, uname=uname, ma=False)
    gone = set()
    first = 1 if cfg.servers[0].statsrv != 0 else 0
    for e in word:
        rnd = pipeline.rnd40(rng)
        if e == 'A' and 0 not in gone: ops.append('op cpkt 0 %d %s %s' % (now, rnd, hx(r0)))
        elif e == 'C' and 0 not in gone: ops.append('op cpkt 0 %d %s %s' % (now, rnd, hx(r1)))
        elif e == 'U' and 0 not in gone: ops.append('op cpkt 0 %d %s %s' % (now, rnd, hx(ru)))
        elif e == 'D' and 1 not in gone: ops.append('op cpkt 1 %d %s %s' % (now, rnd, hx(r2)))
        elif e == 'E': ops.append('op sreply 0 %d %d %s 2 - 80:auto' % (first, now, rnd))
        elif e == 'F': ops.append('op sreply 0 %d %d %s 2 badauth 80:auto' % (first, now, rnd))
        elif e == 'L': ops.append('op sreply 0 %d %d %s 3 - 80:auto' % (first + 1, now, rnd))
        elif e == 'G': ops.append('op wpass 0 %d %s' % (now, rnd))
        elif e == 'H':
            now += 6
            ops.append('op wpass 0 %d %s' % (now, rnd))
        elif e == 'T':
            now += 11
        elif e == 'I': ops.append('op reconnect 0')
        elif e == 'J' and 0 not in gone:
            ops.append('op cgone 0'); gone.add(0)
        elif e == 'K' and 0 not in gone: ops.append('op drain 0')
    return ops

ALPHABET = 'ACDEFLGHTIJKU'

def dyn_case(rng, k):
    cfg = base_cfg(rng, statsrv=rng.randrange(4), dupint=60)     # nothing else expires during the flush
    d = pipeline.Server(1, 'dynsrv')
    d.dyn = '/bin/false'
    d.type = pipeline.T_TCP          # the UDP transport asserts a host list when the server object is created
    cfg.servers.append(d)
    r = pipeline.Realm('dyn.test')
    r.srv = [1]
    cfg.realms.insert(0, r)
    n = rng.randrange(1, 7)
    pkts = []
    for i in range(n):
        p, _ = pipeline.clean_request(rng, cfg, 0, code=1, ident=10 + i, uname=b'user@dyn.test')
        pkts.append(hx(p))
    ops = []
    now = 1000005
    if rng.random() < 0.5:
        p, _ = pipeline.clean_request(rng, cfg, 0, code=1, ident=1, uname=b'bob@example.com')
        ops.append('op cpkt 0 %d %s %s' % (now, pipeline.rnd40(rng), hx(p)))
    ops.append('op dynflush 0 %d %s' % (now, ' '.join(pkts)))
    # afterwards the same requests are retransmitted: they must be treated as new (a new discovery starts)
    ops.append('op dynflush 0 %d %s' % (now + 1, ' '.join(pkts[:2])))
    ops.append('op cgone 0')
    return ('dyn-%d' % k, cfg.conf_lines() + cfg.cfg_lines() + ops)

def generate(rng, tier):
    out = []
    depth = 4 if tier == 'thorough' else 3
    k = 0
    for word in itertools.product(ALPHABET, repeat=depth):
        # a history always starts with a request so that there is something to release
        w = 'A' + ''.join(word)
        cfg = base_cfg(rng, statsrv=k % 4, dupint=10, tcp=(k % 7 == 3))
        out.append(('ord-%s' % w, cfg.conf_lines() + cfg.cfg_lines() + event_ops(rng, cfg, w)))
        k += 1
    nrand = 600 if tier == 'thorough' else 40
    for i in range(nrand):
        cfg = base_cfg(rng, statsrv=rng.randrange(4), dupint=rng.choice([0, 1, 10]), tcp=rng.random() < 0.3)
        w = 'A' + ''.join(rng.choice(ALPHABET) for _ in range(rng.randrange(6, 14)))
        out.append(('rnd-%d' % i, cfg.conf_lines() + cfg.cfg_lines() + event_ops(rng, cfg, w)))
    def mod(rng, cfg):
        for r in cfg.realms:
            if not r.srv: r.srv = [0]
            if not r.acc: r.acc = list(r.srv)
    def hist(rng, cfg):
        ops = pipeline.history(rng, cfg, nops=12)
        gone = rng.randrange(len(cfg.clients))
        cut = rng.randrange(3, len(ops) + 1)
        kept = ops[:cut] + ['op cgone %d' % gone] + [o for o in ops[cut:] if not (o.startswith('op cpkt %d ' % gone) or o.startswith('op drain %d' % gone))]
        return kept
    out += pipeline.guided_cases(rng, nrand, hist, 'hist', cfgmod=mod)
    for i in range(40 if tier == 'thorough' else 8):
        out.append(dyn_case(rng, i))
    # the server goes away (its reader ended): queued-but-untransmitted and transmitted requests are all released once,
    # then the clients disconnect
    for i in range(120 if tier == 'thorough' else 12):
        cfg = base_cfg(rng, statsrv=rng.randrange(4), dupint=10, tcp=rng.random() < 0.5)
        w = 'A' + ''.join(rng.choice('ACDEFLGHTIK') for _ in range(rng.randrange(1, 7)))
        ops = event_ops(rng, cfg, w) + ['op srvgone 0'] + ['op cgone %d' % c for c in rng.sample([0, 1], 2)]
        out.append(('srvgone-%d' % i, cfg.conf_lines() + cfg.cfg_lines() + ops))
    # requests that cannot be serialised for the server (too long once the Message-Authenticator is added), followed
    # by ordinary traffic on the same table: every slot must be usable afterwards
    for i in range(30 if tier == 'thorough' else 6):
        cfg = base_cfg(rng, statsrv=rng.randrange(4), dupint=10)
        ops = []
        now = 1000005
        target = rng.choice([4079, 4085, 4090, 4096, 4078, 4060])
        fill = []
        size = 20 + 17 + 6 + 19 + 6       # header + User-Name + NAS-IP + Calling-Station-Id + Proxy-State of clean_request
        while size + 255 <= target:
            fill.append((18, b'x' * 253)); size += 255
        rest = target - size
        if rest >= 2:
            fill.append((18, b'y' * (rest - 2)))
        big, _ = pipeline.clean_request(rng, cfg, 0, code=1, ident=50, uname=b'bob@example.com', extra=fill, ma=False)
        ops.append('op cpkt 0 %d %s %s' % (now, pipeline.rnd40(rng), hx(big)))
        for k in range(3):
            p2, _ = pipeline.clean_request(rng, cfg, 0, code=1, ident=60 + k, uname=b'bob@example.com')
            ops.append('op cpkt 0 %d %s %s' % (now, pipeline.rnd40(rng), hx(p2)))
        ops.append('op wpass 0 %d %s' % (now, pipeline.rnd40(rng)))
        ops.append('op cgone 0')
        out.append(('big-%d' % i, cfg.conf_lines() + cfg.cfg_lines() + ops))
    return out
