"""C19: a failed allocation -- for representative exchanges, the n-th allocation of the handler fails, for every n"""
from common import *
import pipeline, radius, rwgen
TRUSTED_BASE = ['allocation failure is injected by wrapping malloc/calloc/realloc/strdup/asprintf at link time while the handler runs; the model knows stages, not single allocations (coq/Model/Proxy.v, oracle fs); OpenSSL/nettle internal allocations are not failed']
ASSUMPTIONS = ['one allocation fails per operation; handlers run one at a time']
RULE = 'exchanges: plain Access-Request, with rewrites on all four hooks, with User-Name rewrite, CHAP, hidden attributes in the reply (MS-MPPE, Tunnel-Password), local reject (ReplyMessage), accounting response, Status-Server from client, Disconnect-Request NAK, duplicate replay, writer pass with Status-Server probe; for each, every n from 1 up to the number of allocations the operation makes'

def scenario(rng, kind):
    """returns (cfg, ops, index of the target op)"""
    cfg = pipeline.Cfg()
    c = pipeline.Client(0, 'cl0'); c.secret = b'csecret'
    s = pipeline.Server(0, 'srv0'); s.secret = b'ssecret'; s.statsrv = 0
    cfg.clients.append(c); cfg.servers.append(s)
    r = pipeline.Realm('example.com'); r.srv = [0]; r.acc = [0]
    cfg.realms.append(r)
    now = 1000005
    uname = b'bob@example.com'
    ops = []
    R = lambda: pipeline.rnd40(rng)
    if kind in ('rewrite', 'reply-rewrite'):
        for nm in ('rwa', 'rwb', 'rwc', 'rwd'):
            cfg.rewrites.append(rwgen.random_rw(rng, nm))
        c.rwin, c.rwout, s.rwin, s.rwout = cfg.rewrites
    if kind == 'username':
        c.rwuser = (r'^(.*)@(.*)$', r'\1+x@\2')
    if kind == 'ttl':
        cfg.addttl = 5
    if kind == 'probe':
        s.statsrv = 1
    if kind == 'reject':
        r2 = pipeline.Realm('dead.test'); r2.msg = b'no-such-realm'
        cfg.realms.insert(0, r2)
        uname = b'bob@dead.test'
    if kind == 'acctresp':
        r2 = pipeline.Realm('dead.test'); r2.accresp = True
        cfg.realms.insert(0, r2)
        uname = b'bob@dead.test'
    extra = [(33, b'ps-one'), (33, b'ps-two')]
    if kind in ('plain', 'rewrite', 'username', 'ttl', 'dup', 'reply', 'reply-rewrite', 'reply-hidden', 'full-reply', 'wpass'):
        chap = False
        pkt, info = pipeline.clean_request(rng, cfg, 0, code=1, ident=7, uname=uname, pwdlen=16, extra=extra)
    elif kind == 'chap':
        pkt, info = pipeline.clean_request(rng, cfg, 0, code=1, ident=7, uname=uname, chap=True, extra=extra)
    elif kind in ('reject',):
        pkt, info = pipeline.clean_request(rng, cfg, 0, code=1, ident=7, uname=uname, extra=extra)
    elif kind in ('acct', 'acctresp'):
        pkt, info = pipeline.clean_request(rng, cfg, 0, code=4, ident=7, uname=uname, extra=extra)
    elif kind == 'status':
        pkt, info = pipeline.clean_request(rng, cfg, 0, code=12, ident=7, uname=uname, extra=extra)
    elif kind == 'disconnect':
        pkt = radius.build(40, 7, rbytes(rng, 16), [(1, uname), (33, b'ps')], c.secret)
    elif kind == 'probe':
        pkt = None
    if kind == 'probe':
        ops.append('op wpass 0 %d %s' % (now + 100, R()))
        return cfg, ops, 0
    ops.append('op cpkt 0 %d %s %s' % (now, R(), hx(pkt)))
    target = 0
    if kind in ('dup', 'reply', 'reply-rewrite', 'reply-hidden', 'full-reply'):
        ops.append('op wpass 0 %d %s' % (now, R()))
        attrs = ['80:auto', '18:' + hx(b'welcome'), '1:' + hx(uname)]
        if kind in ('reply-hidden', 'full-reply'):
            attrs.append('26:' + hx(radius.vsa(311, [(16, rbytes(rng, 34)), (17, rbytes(rng, 34))])))
            attrs.append('69:' + hx(bytes([1, 0x80, 0x01]) + rbytes(rng, 16)))
        ops.append('op sreply 0 0 %d %s 2 - %s' % (now, R(), ' '.join(attrs)))
        target = 2
        if kind == 'dup':
            ops.append('op cpkt 0 %d %s %s' % (now + 1, R(), hx(pkt)))
            target = 3
    if kind == 'wpass':
        ops.append('op wpass 0 %d %s' % (now, R()))
        target = 1
    return cfg, ops, target

KINDS = ['plain', 'rewrite', 'username', 'ttl', 'chap', 'reject', 'acct', 'acctresp', 'status', 'disconnect', 'dup',
         'reply', 'reply-rewrite', 'reply-hidden', 'wpass', 'probe']

def frame_cases(rng, tier):
    """the stream readers (tcp.c, tls.c): the n-th allocation made while 1..3 packets are being read off a connection
    fails, for every n; the peer then closes, stalls, or sends a bad length field.  A packet is dropped whole or not at all."""
    import C16
    ops = []
    for rd in C16.READERS:
        for npk in (1, 2, 3):
            for tail in ('', 'bad', 'part'):
                s = b''.join(C16.pkt(rng, rng.choice([20, 21, 40])) for _ in range(npk))
                if tail == 'bad':
                    s += bytes([1, 1, 0, 3]) + rbytes(rng, 8)
                elif tail == 'part':
                    s += C16.pkt(rng, 40)[:rng.choice([2, 4, 14, 39])]
                for n in range(1, 2 * npk + 4):
                    sched = rng.choice([['r100'] * 8, ['r7'] * (len(s) // 7 + 3), ['r100', 't', 'r100', 'r100', 'r100'], ['r100', 'r100', 'e']])
                    ops.append('op framefail %d %s - %s %s' % (n, rd, hx(s), ' '.join(sched)))
    return [(cid, ["cfg nopipe"] + lines) for cid, lines in batch(ops, "ffail", 30)]

def generate(rng, tier):
    out = frame_cases(rng, tier)
    reps = 3 if tier == 'thorough' else 1
    maxn = 260 if tier == 'thorough' else 140
    for kind in KINDS:
        for rep in range(reps):
            st = rng.getstate()
            cfg, ops, target = scenario(rng, kind)
            base = cfg.conf_lines() + cfg.cfg_lines()
            for n in range(1, maxn + 1):
                o = list(ops)
                o[target] = 'op failat %d %s' % (n, o[target][3:])
                # afterwards: the same request again (must be handled afresh or as a duplicate, never crash), then the client goes
                tail = []
                if ops[0].startswith('op cpkt'):
                    t = ops[0].split()
                    tail.append('op cpkt 0 %d %s %s' % (int(t[3]) + 2, t[4], t[5]))
                tail.append('op wpass 0 1000400 %s' % pipeline.rnd40(rng))
                tail.append('op cgone 0')
                out.append(('%s-%d-n%d' % (kind, rep, n), base + o + tail))
    return out
