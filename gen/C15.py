"""C15: certificate authorisation through the real verifyconfcert on X509 objects built from abstract records"""
from common import *
import ipaddress
TRUSTED_BASE = ['model of verifyconfcert, certnamecheck, matchsubjaltname, certattr_* in coq/Model/Cert.v',
                'Cert.host_pattern_match / x509_check_host / x509_check_ip are a MODEL of OpenSSL 3 X509_check_host (NO_PARTIAL_WILDCARDS) and X509_check_ip_asc for LDH names, validated only by this correspondence',
                'harness/hcert.inc builds the X509 (subject CNs, subjectAltName entries) with the OpenSSL API; regex answers are logged from glibc']
ASSUMPTIONS = ['the certificate chain was verified by OpenSSL before verifyconfcert is called', 'expected host names are LDH names not starting with "." or IP literals']
RULE = 'certificates with 0..4 SAN entries of kinds DNS/IP/URI/registeredID/otherName(NAIRealm, other OID) and 0..2 CNs drawn from exact/prefix/suffix/superstring/case/wildcard variants of the expected names x block settings; distinct = distinct implementation observation lines'

NAI = '1.3.6.1.5.5.7.8.8'
OIDS = [NAI, '1.2.3.4', '1.3.6.1.4.1.25178.3']
NAMES = ['radius.example.org', 'example.org', 'a.b.example.org', 'host.co.uk', 'srv1.test']

def variants(rng, name):
    labels = name.split('.')
    v = [name, name.upper(), name.capitalize(), 'x' + name, name + 'x', name + '.', '.' + name, name + '.evil.org', 'evil-' + name,
         '*.' + '.'.join(labels[1:]) if len(labels) > 1 else '*', '*.' + name, '*' + name[1:], 'w*.' + '.'.join(labels[1:]),
         labels[0] + '.*.' + '.'.join(labels[2:]) if len(labels) > 2 else name, '*', '*.*.' + '.'.join(labels[1:]),
         '.'.join(labels[1:]), name[:-1], name.replace('.', '-', 1), 'a_b.' + '.'.join(labels[1:])]
    return rng.choice(v)

def realm_variants(rng, realm):
    labels = realm.split('.')
    return rng.choice([realm, realm.upper(), realm[:-2], realm + '.evil.org', realm.split('.')[0], '*.' + '.'.join(labels[1:]),
                       '*.' + realm, '*.', '*', '*.*.' + '.'.join(labels[1:]), '.' + '.'.join(labels[1:]), '*.' + labels[-1], '*.' + '.'.join(labels[1:]) + '\0x'])

def generate(rng, tier):
    ops = []
    n = 60000 if tier == 'thorough' else 2500
    for _ in range(n):
        conf = []
        namecheck = rng.random() < 0.85
        cncheck = rng.random() < 0.5
        conf += ['namecheck=%d' % namecheck, 'cncheck=%d' % cncheck]
        expected = rng.choice(NAMES)
        ipmode = rng.random() < 0.2
        ipaddr = rng.choice(['192.0.2.7', '10.1.2.3', '2001:db8::1', '2001:db8::2'])
        exp = ipaddr if ipmode else expected
        ipof = []
        def reg(h):
            try:
                ipof.append('ipof=%s:%s' % (hx(h.encode()), ipaddress.ip_address(h).packed.hex()))
            except ValueError:
                pass
        k = rng.random()
        if k < 0.25:
            conf.append('servername=%s' % hx(exp.encode())); reg(exp)
            conf.append('hosts=%s:255' % hx(b'other.host.example'))
        elif k < 0.55:
            conf.append('connected=%s:%d' % (hx(exp.encode()), rng.choice([255, 255, 255, 24]))); reg(exp)
            conf.append('hosts=%s:255' % hx(b'other.host.example'))
        else:
            hosts = [exp] + rng.sample(NAMES, rng.randrange(0, 2))
            rng.shuffle(hosts)
            for h in hosts:
                reg(h)
            conf.append('hosts=' + ','.join('%s:%d' % (hx(h.encode()), rng.choice([255, 255, 255, 16])) for h in hosts))
        realm = None
        if rng.random() < 0.4:
            realm = rng.choice(['example.org', 'a.example.org', 'test.local', 'a.a'])
            conf.append('realm=%s' % hx(realm.encode()))
        # match terms
        terms = []
        for _ in range(rng.choice([0, 0, 1, 1, 2, 3])):
            t = rng.choice(['cn', 'dns', 'uri', 'ip', 'rid', 'other'])
            if t == 'cn':
                terms.append(('CN:/%s/' % rng.choice(['^radius', 'example', 'org$']), 'cn'))
            elif t == 'dns':
                terms.append(('SubjectAltName:DNS:/%s/' % rng.choice([r'\.example\.org$', '^radius', 'test']), 'dns'))
            elif t == 'uri':
                terms.append(('SubjectAltName:URI:/%s/' % rng.choice(['^https:', 'example']), 'uri'))
            elif t == 'ip':
                a = rng.choice(['192.0.2.7', '2001:db8::1', '10.1.2.3'])
                terms.append(('SubjectAltName:IP:%s' % a, 'ip:' + ipaddress.ip_address(a).packed.hex()))
            elif t == 'rid':
                o = rng.choice(OIDS)
                terms.append(('SubjectAltName:rID:%s' % o, 'rid:' + o))
            else:
                o = rng.choice(OIDS)
                terms.append(('SubjectAltName:otherName:%s:/%s/' % (o, rng.choice(['example', r'^\*', 'local$'])), 'other:' + o))
        for cs, ab in terms:
            conf.append('term=%s' % hx(cs.encode()))
            conf.append('tabs=%s' % ab)
        conf += ipof
        # certificate
        cert = []
        for _ in range(rng.choice([0, 1, 1, 2])):
            cert.append('cn:' + hx(variants(rng, expected).encode() if rng.random() < 0.8 else expected.encode()))
        ipterm = any(ab.startswith('ip:') for _, ab in terms)
        otherterm = any(ab.startswith('other:') for _, ab in terms)
        for _ in range(rng.randrange(0, 5)):
            kind = rng.choice(['dns', 'dns', 'dns', 'ip', 'uri', 'rid', 'other', 'other'] + (['ip'] * 6 if ipterm else []) + (['other'] * 6 if otherterm else []))
            if kind == 'dns':
                v = variants(rng, expected) if rng.random() < 0.75 else (ipaddr if rng.random() < 0.5 else expected)
                b = v.encode()
                if rng.random() < 0.03:
                    b = b + b'\0.evil.org'
                cert.append('dns:' + hx(b))
            elif kind == 'ip':
                # incl. cross-family near misses: 32.1.13.184 = first four octets of 2001:db8::1, c000:207:: = 192.0.2.7 then zeros
                a = rng.choice(['192.0.2.7', '10.1.2.3', '2001:db8::1', '2001:db8::2', '2001:db9::1', '192.0.2.8', '32.1.13.184', 'c000:207::', 'a01:203::'])
                cert.append('ip:' + ipaddress.ip_address(a).packed.hex())
            elif kind == 'uri':
                cert.append('uri:' + hx(rng.choice([b'https://example.org/', b'urn:x', b'https://evil/example'])))
            elif kind == 'rid':
                cert.append('rid:' + rng.choice(OIDS))
            else:
                # type-ids: the NAIRealm one, the ones terms name, and one no term ever names; an otherName term must
                # only be satisfied by an entry of ITS type-id, also among object identifiers OpenSSL has no name for
                o = rng.choice([NAI, NAI, '1.2.3.4', '1.2.3.4', '1.3.6.1.4.1.25178.3', '1.3.6.1.4.1.55555.7.2'])
                v = realm_variants(rng, realm or 'example.org') if rng.random() < 0.6 else rng.choice(['example.org', '*.example', 'test.local', 'xlocal'])
                cert.append('other:%s:%s' % (o, hx(v.encode('latin-1'))))
        ops.append('op cert %s | %s' % (' '.join(conf), ' '.join(cert)))
    import focus
    # the name-check options of a dynamically discovered server: template block + block printed by the lookup command
    return [(cid, ['cfg nopipe'] + l) for cid, l in batch(ops, 'cert', 50)] + focus.dynext_cases(rng, 200 if tier == 'thorough' else 12)
