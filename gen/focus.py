"""Guided pipeline streams aimed at one clause each (used by several property generators)"""
from common import *
import pipeline, radius, rwgen

def _req(rng, cfg, c, code, **kw):
    # a Message-Authenticator in an Accounting-Request built by radius.build does not verify: only Access-Requests get one
    return pipeline.clean_request(rng, cfg, c, code=code, ma=(code == 1), **kw)

def _cfg1(rng):
    cfg = pipeline.Cfg()
    c = pipeline.Client(0, 'peerA'); cfg.clients.append(c)
    s = pipeline.Server(0, 'srvX'); cfg.servers.append(s)
    r = pipeline.Realm('example.com'); r.srv = [0]; r.acc = [0]; cfg.realms.append(r)
    return cfg

def eap_fragment_cases(rng, n):
    """C05 VerifyEAP: the EAP packet is the concatenation of ALL EAP-Message attributes; fragments of any size, also a
    short one that is not the last, with the length field equal to the total, to a proper prefix of the fragments,
    or to neither"""
    out = []
    for k in range(n):
        cfg = _cfg1(rng)
        cfg.verifyeap = (k % 5 != 4)
        ops = []
        now = 1000005
        shapes = [[10, 50], [253, 7, 100], [253, 7], [10], [4, 4], [5, 253], [253, 253, 20], [1, 3], [20, 0, 20], [30, 30, 30]]
        for i, sizes in enumerate(shapes if k < 2 else [rng.choice(shapes) for _ in range(4)] + [[rng.randrange(1, 254) for _ in range(rng.randrange(1, 4))]]):
            total = sum(sizes)
            prefix = [sum(sizes[:j]) for j in range(1, len(sizes))]
            ln = rng.choice([total, total] + prefix + prefix + [total + 1, max(4, total - 1)]) if k >= 2 else [total, sizes[0]][k]
            eap = bytearray(rbytes(rng, total))
            if total >= 4:
                eap[0] = rng.choice([1, 2]); eap[2], eap[3] = (ln >> 8) & 255, ln & 255
            frags, p = [], 0
            for z in sizes:
                frags.append((79, bytes(eap[p:p + z]))); p += z
            pkt, _ = pipeline.clean_request(rng, cfg, 0, code=1, ident=30 + i, uname=b'bob@example.com', extra=frags)
            ops.append('op cpkt 0 %d %s %s' % (now, pipeline.rnd40(rng), hx(pkt)))
        out.append(('eapfrag-%d' % k, cfg.conf_lines() + cfg.cfg_lines() + ops))
    return out

def ma_policy_cases(rng, n):
    """C05: RequireMessageAuthenticator / ...Proxy in all combinations x request with/without Message-Authenticator and Proxy-State"""
    out = []
    for k in range(n):
        cfg = _cfg1(rng)
        c = cfg.clients[0]
        c.reqma, c.reqmap = [(False, False), (True, False), (False, True), (True, True)][k % 4]
        c.type = rng.choice([pipeline.T_UDP, pipeline.T_TCP])
        ops = []
        now = 1000005
        ident = 1
        for ma in (True, False):
            for ps in (True, False):
                for code in (1, 4):
                    attrs = [(1, b'bob@example.com'), (4, bytes([10, 0, 0, 9])), (31, b'00-11-22-33-44-55')]
                    if ps:
                        attrs.insert(rng.randrange(len(attrs) + 1), (33, b'proxy-state'))
                    if ma:
                        attrs.insert(rng.randrange(len(attrs) + 1), (80, None))
                    pkt = radius.build(code, ident, rbytes(rng, 16), attrs, c.secret)
                    ident += 1
                    ops.append('op cpkt 0 %d %s %s' % (now, pipeline.rnd40(rng), hx(pkt)))
        rng.shuffle(ops)
        out.append(('mapol-%d' % k, cfg.conf_lines() + cfg.cfg_lines() + ops))
    return out

def never_sent_cases(rng, n):
    """C04: a correctly signed reply for a request that is queued but not yet transmitted, then after transmission"""
    out = []
    for k in range(n):
        cfg = _cfg1(rng)
        cfg.servers[0].statsrv = rng.randrange(4)
        cfg.servers[0].type = rng.choice([pipeline.T_UDP, pipeline.T_TCP])
        first = 1 if cfg.servers[0].statsrv else 0
        now = 1000005
        pkt, _ = _req(rng, cfg, 0, rng.choice([1, 4]), ident=9, uname=b'bob@example.com')
        code = 5 if pkt[0] == 4 else 2
        ops = ['op cpkt 0 %d %s %s' % (now, pipeline.rnd40(rng), hx(pkt)),
               'op sreply 0 %d %d %s %d - 80:auto' % (first, now, pipeline.rnd40(rng), code),
               'op wpass 0 %d %s' % (now, pipeline.rnd40(rng)),
               'op sreply 0 %d %d %s %d - 80:auto' % (first, now, pipeline.rnd40(rng), code),
               'op sreply 0 %d %d %s %d - 80:auto' % (first, now, pipeline.rnd40(rng), code)]
        out.append(('neversent-%d' % k, cfg.conf_lines() + cfg.cfg_lines() + ops))
    return out

def loop_cases(rng, n):
    """C13: LoopPrevention global on/off (before or after the blocks) x server on/off/unset x same or different block name"""
    out = []
    k = 0
    for glob in (False, True):
        for after in (False, True):
            for slp in (255, 0, 1):
                for same in (False, True):
                    for rep in range(max(1, n // 24)):
                        cfg = _cfg1(rng)
                        cfg.loopprev = glob
                        cfg.opts_after = after
                        cfg.servers[0].loopprev = slp
                        cfg.servers[0].name = 'peerA' if same else 'srvX'
                        pkt, _ = _req(rng, cfg, 0, rng.choice([1, 4]), ident=3, uname=b'bob@example.com')
                        ops = ['op cpkt 0 1000005 %s %s' % (pipeline.rnd40(rng), hx(pkt))]
                        out.append(('loop-%d' % k, cfg.conf_lines() + cfg.cfg_lines() + ops))
                        k += 1
    return out

def rwout80_cases(rng, n):
    """C06: the client's rewriteOut removes / adds attributes incl. Message-Authenticator; replies of every response code"""
    out = []
    for k in range(n):
        cfg = _cfg1(rng)
        rw = rwgen.random_rw(rng, 'rwo', allow80=True)
        if rng.random() < 0.7:
            rw.rm = sorted(set((rw.rm or []) + [80])); rw.wl = False
        if rng.random() < 0.4:
            # a configured Message-Authenticator of the wrong size (F18): must never be signed in place
            rw.add = (rw.add or []) + [(80, rbytes(rng, rng.choice([0, 1, 2, 15, 17, 16])))]
        cfg.rewrites.append(rw)
        cfg.clients[0].rwout = rw
        if rng.random() < 0.5:
            cfg.servers[0].rwout = rw
        now = 1000005
        ops = []
        for i, rcode in enumerate(rng.sample([2, 3, 11, 5], 3)):
            code = 4 if rcode == 5 else 1
            pkt, _ = _req(rng, cfg, 0, code, ident=20 + i, uname=b'bob@example.com')
            ops.append('op cpkt 0 %d %s %s' % (now, pipeline.rnd40(rng), hx(pkt)))
            ops.append('op wpass 0 %d %s' % (now, pipeline.rnd40(rng)))
            attrs = ['18:' + hx(b'hi')] + (['80:auto'] if rng.random() < 0.7 else []) + ['%d:%s' % (t, hx(v)) for t, v in rwgen.random_attrs(rng, rw, maxn=3)]
            rng.shuffle(attrs)
            ops.append('op sreply 0 %d %d %s %d - %s' % (i, now, pipeline.rnd40(rng), rcode, ' '.join(attrs)))
        out.append(('rwout80-%d' % k, cfg.conf_lines() + cfg.cfg_lines() + ops))
    return out

def probe_reset_cases(rng, n):
    """C09: a server with unanswered requests answers a Status-Server probe (or a request): it is preferred again"""
    out = []
    for k in range(n):
        cfg = pipeline.Cfg()
        c = pipeline.Client(0, 'peerA'); cfg.clients.append(c)
        for i in range(2):
            s = pipeline.Server(i, 'srv%d' % i); s.statsrv = rng.choice([1, 2, 3]); cfg.servers.append(s)
        r = pipeline.Realm('example.com'); r.srv = [0, 1]; r.acc = [0, 1]; cfg.realms.append(r)
        now = 1000005
        ops = ['op srvset 0 2 %d' % rng.choice([1, 3, 16])]
        p1, _ = pipeline.clean_request(rng, cfg, 0, code=1, ident=1, uname=b'bob@example.com')
        ops.append('op cpkt 0 %d %s %s' % (now, pipeline.rnd40(rng), hx(p1)))      # goes to server 1
        now += 100
        ops.append('op wpass 0 %d %s' % (now, pipeline.rnd40(rng)))                # probe to server 0
        ops.append('op sreply 0 0 %d %s 2 %s 80:auto' % (now, pipeline.rnd40(rng), rng.choice(['-', '-', '-', 'badauth'])))
        p2, _ = pipeline.clean_request(rng, cfg, 0, code=1, ident=2, uname=b'bob@example.com')
        ops.append('op cpkt 0 %d %s %s' % (now, pipeline.rnd40(rng), hx(p2)))      # server 0 again if it answered
        out.append(('failback-%d' % k, cfg.conf_lines() + cfg.cfg_lines() + ops))
    return out

def noserver_cases(rng, reps):
    """C08: a matching realm without a usable server: ReplyMessage yes/no x AccountingResponse on/off x AccountingLog x request kind;
    Access-Request gets a Reject only with a ReplyMessage, Accounting-Request a response only with AccountingResponse, else silence"""
    out = []
    k = 0
    for rep in range(reps):
        for msg in (None, b'no-such-realm'):
            for accresp in (False, True):
                for acclog in (False, True):
                    cfg = _cfg1(rng)
                    r = pipeline.Realm('dead.test'); r.msg = msg; r.accresp = accresp; r.acclog = acclog
                    cfg.realms.insert(0, r)
                    ops = []
                    for i, code in enumerate((1, 4, 1, 4)):
                        uname = b'bob@dead.test' if i < 2 else b'bob@example.com'
                        pkt, _ = _req(rng, cfg, 0, code, ident=40 + i, uname=uname)
                        ops.append('op cpkt 0 1000005 %s %s' % (pipeline.rnd40(rng), hx(pkt)))
                    out.append(('noserver-%d' % k, cfg.conf_lines() + cfg.cfg_lines() + ops))
                    k += 1
                    # the realm HAS servers but every one of them is failing (state 4): same answers, nothing forwarded
                    cfg = _cfg1(rng)
                    s2 = pipeline.Server(1, 'srvY'); cfg.servers.append(s2)
                    r = cfg.realms[0]; r.srv = [0, 1]; r.acc = [1, 0]; r.msg = msg; r.accresp = accresp; r.acclog = acclog
                    ops = ['op srvset 0 4 %d' % rng.choice([0, 3, 16]), 'op srvset 1 4 %d' % rng.choice([0, 3, 16])]
                    for i, code in enumerate((1, 4)):
                        pkt, _ = _req(rng, cfg, 0, code, ident=60 + i, uname=b'bob@example.com')
                        ops.append('op cpkt 0 1000005 %s %s' % (pipeline.rnd40(rng), hx(pkt)))
                    ops.append('op srvset %d %d 0' % (rng.randrange(2), rng.choice([0, 3])))   # one of them starts / reconnects: usable again
                    pkt, _ = _req(rng, cfg, 0, 1, ident=70, uname=b'bob@example.com')
                    ops.append('op cpkt 0 1000005 %s %s' % (pipeline.rnd40(rng), hx(pkt)))
                    out.append(('allfailing-%d' % k, cfg.conf_lines() + cfg.cfg_lines() + ops))
                    k += 1
    return out

def reply_ttl_cases(rng, n):
    """C13: AddTTL on the reply path: global / client / server values all different, replies with and without a TTL attribute"""
    out = []
    for k in range(n):
        cfg = _cfg1(rng)
        cfg.ttlattr = rng.choice([None, (27262, 1), (210, 256)])
        cfg.addttl = rng.choice([0, 5])
        cfg.clients[0].addttl = rng.choice([0, 7])
        cfg.servers[0].addttl = rng.choice([0, 9])
        t0, t1 = cfg.ttl()
        ops = []
        now = 1000005
        for i, rcode in enumerate([2, 3, 5]):
            code = 4 if rcode == 5 else 1
            pkt, _ = _req(rng, cfg, 0, code, ident=30 + i, uname=b'bob@example.com')
            ops.append('op cpkt 0 %d %s %s' % (now, pipeline.rnd40(rng), hx(pkt)))
            ops.append('op wpass 0 %d %s' % (now, pipeline.rnd40(rng)))
            attrs = ['18:' + hx(b'ok')] + (['80:auto'] if rcode != 5 else [])
            if rng.random() < 0.3:
                ttlv = bytes([0, 0, 0, rng.choice([0, 1, 2, 9])])
                attrs.append(('26:' + hx(radius.vsa(t0, [(t1, ttlv)]))) if t1 != 256 else ('%d:%s' % (t0, hx(ttlv))))
            ops.append('op sreply 0 %d %d %s %d - %s' % (i, now, pipeline.rnd40(rng), rcode, ' '.join(attrs)))
        out.append(('replyttl-%d' % k, cfg.conf_lines() + cfg.cfg_lines() + ops))
    return out


def username_restore_cases(rng, n):
    """C02: the client's own User-Name comes back in the reply whatever the rewrite did to it -- in particular when
    rewriteUsername changed letter case only (the expressions are compiled case-insensitively), changed the length,
    or changed nothing; the server echoes the name it was given"""
    out = []
    rules = [(r'^(.*)@example\.com$', r'\1@example.com', lambda u: u.split(b'@')[0] + b'@example.com'),
             (r'^(.*)@(.*)$', r'\1@\2', lambda u: u),
             (r'^(.*)$', r'\1.inner', lambda u: u + b'.inner'),
             # the rewritten name is a proper prefix of the original
             (r'^(.*)\.x$', r'\1', lambda u: u[:-2] if u.endswith(b'.x') else u)]
    names = [b'Alice@Example.COM', b'alice@EXAMPLE.com', b'alice@example.com', b'BOB@example.Com', b'carol@example.com.x']
    for k in range(n):
        cfg = _cfg1(rng)
        rx, rp, f = rules[k % len(rules)]
        cfg.clients[0].rwuser = (rx, rp)
        ops = []
        now = 1000005
        for i, rcode in enumerate([2, 3, 5]):
            code = 4 if rcode == 5 else 1
            u = names[(k // len(rules) + i) % len(names)]
            pkt, _ = _req(rng, cfg, 0, code, ident=40 + i, uname=u)
            ops.append('op cpkt 0 %d %s %s' % (now, pipeline.rnd40(rng), hx(pkt)))
            ops.append('op wpass 0 %d %s' % (now, pipeline.rnd40(rng)))
            attrs = ['1:' + hx(f(u)), '18:' + hx(b'ok')] + (['80:auto'] if rcode != 5 else [])
            ops.append('op sreply 0 %d %d %s %d - %s' % (i, now, pipeline.rnd40(rng), rcode, ' '.join(attrs)))
        out.append(('unrestore-%d' % k, cfg.conf_lines() + cfg.cfg_lines() + ops))
    return out


def peer_type_reply_cases(rng, n):
    """C06: replies delivered to clients of every transport type (UDP, TCP, TLS, DTLS) when the home server's reply
    carries no Message-Authenticator, carries it last, or carries it first: Access-Accept/Reject/Challenge go out with a
    verifying Message-Authenticator as FIRST attribute whatever the transport"""
    out = []
    for k in range(n):
        cfg = _cfg1(rng)
        c = cfg.clients[0]
        t = [pipeline.T_UDP, pipeline.T_TCP, pipeline.T_TLS, pipeline.T_DTLS][k % 4]
        if t in (pipeline.T_TLS, pipeline.T_DTLS):
            c.xtype = t
        else:
            c.type = t
        ops = []
        now = 1000005
        for i, (rcode, shape) in enumerate([(2, 'none'), (3, 'last'), (11, 'first'), (2, 'last'), (5, 'none')]):
            code = 4 if rcode == 5 else 1
            pkt, _ = _req(rng, cfg, 0, code, ident=50 + i, uname=b'bob@example.com')
            ops.append('op cpkt 0 %d %s %s' % (now, pipeline.rnd40(rng), hx(pkt)))
            ops.append('op wpass 0 %d %s' % (now, pipeline.rnd40(rng)))
            attrs = ['18:' + hx(b'ok'), '24:' + hx(b'st')]
            if shape == 'last':
                attrs.append('80:auto')
            elif shape == 'first':
                attrs.insert(0, '80:auto')
            ops.append('op sreply 0 %d %d %s %d - %s' % (i, now, pipeline.rnd40(rng), rcode, ' '.join(attrs)))
        out.append(('ptype-%d' % k, cfg.conf_lines() + cfg.cfg_lines() + ops))
    return out


def dynext_cases(rng, n):
    """C12/C04/C15 for dynamically discovered servers: the template block gives some options, the block printed by the
    lookup command gives others; what applies afterwards is the printed value, else the template's, else the default of
    the transport -- except requireMessageAuthenticator (template only) and CertificateCNCheck (printed block only)"""
    import os
    script = os.path.join(os.path.dirname(os.path.dirname(os.path.abspath(__file__))), 'harness', 'lookup2.sh')
    tname = {0: 'udp', 2: 'tcp'}
    ssname = {0: 'off', 1: 'on', 2: 'minimal', 3: 'auto'}
    out = []
    for k in range(n):
        ty = rng.choice([0, 0, 2])
        t = {'type': ty,
             'ri': rng.choice([None, None, 1, 5, 30, 60]),
             'rc': rng.choice([None, None, 0, 1, 3, 10]) if ty == 0 else rng.choice([None, 0]),
             'reqma': rng.random() < 0.5, 'nc': rng.random() < 0.6, 'cnc': rng.random() < 0.4, 'ss': rng.choice([None, 0, 1, 2, 3])}
        def word(): return ''.join(rng.choice('abcdefghjkmnpqrstuvwxyz23456789') for _ in range(rng.choice([1, 2, 6, 9, 16, 31])))
        t['secret'] = word()
        t['addttl'] = rng.choice([None, None, 1, 5, 64, 255])
        t['lp'] = rng.choice([None, None, True, False])
        conf = ['conf client c1 {', 'conf   type udp', 'conf   host 10.0.0.1', 'conf   secret x', 'conf }',
                'conf server tmpl {', 'conf   type %s' % tname[ty], 'conf   secret %s' % t['secret'], 'conf   dynamicLookupCommand %s' % script]
        if t['addttl'] is not None: conf.append('conf   addTTL %d' % t['addttl'])
        if t['lp'] is not None: conf.append('conf   LoopPrevention %s' % ('on' if t['lp'] else 'off'))
        if t['ri'] is not None: conf.append('conf   RetryInterval %d' % t['ri'])
        if t['rc'] is not None: conf.append('conf   RetryCount %d' % t['rc'])
        if t['reqma']: conf.append('conf   requireMessageAuthenticator on')
        conf.append('conf   CertificateNameCheck %s' % ('on' if t['nc'] else 'off'))
        if t['cnc']: conf.append('conf   CertificateCNCheck on')
        if t['ss'] is not None: conf.append('conf   StatusServer %s' % ssname[t['ss']])
        conf += ['conf }', 'conf realm * {', 'conf   server tmpl', 'conf }', 'cfg nopipe']
        ops = []
        for _ in range(4):
            lty = rng.choice([None, None, ty])
            ety = ty if lty is None else lty
            l = {'type': lty,
                 'ri': rng.choice([None, None, 1, 7, 60]),
                 'rc': (rng.choice([None, None, 0, 2, 10]) if ety == 0 else rng.choice([None, None, 0])),
                 'reqma': rng.choice([None, None, True, False]), 'nc': rng.choice([None, None, True, False]),
                 'cnc': rng.choice([None, None, True, False]), 'ss': rng.choice([None, None, 0, 1, 2, 3])}
            blk = ['server dynamic {', '  host 192.0.2.9', '  type %s' % tname[ety]] if lty is not None else ['server dynamic {', '  host 192.0.2.9']
            l['secret'] = word() if rng.random() < 0.5 else None
            l['addttl'] = rng.choice([None, None, None, 2, 9, 200])
            l['lp'] = rng.choice([None, None, None, True, False])
            if l['secret'] is not None: blk.append('  secret %s' % l['secret'])
            if l['addttl'] is not None: blk.append('  addTTL %d' % l['addttl'])
            if l['lp'] is not None: blk.append('  LoopPrevention %s' % ('on' if l['lp'] else 'off'))
            if l['ri'] is not None: blk.append('  RetryInterval %d' % l['ri'])
            if l['rc'] is not None: blk.append('  RetryCount %d' % l['rc'])
            if l['reqma'] is not None: blk.append('  requireMessageAuthenticator %s' % ('on' if l['reqma'] else 'off'))
            if l['nc'] is not None: blk.append('  CertificateNameCheck %s' % ('on' if l['nc'] else 'off'))
            if l['cnc'] is not None: blk.append('  CertificateCNCheck %s' % ('on' if l['cnc'] else 'off'))
            if l['ss'] is not None: blk.append('  StatusServer %s' % ssname[l['ss']])
            blk.append('}')
            def f(v): return '-' if v is None else (str(int(v)))
            kvs = ['t.type=%d' % ty, 't.ri=%s' % (255 if t['ri'] is None else t['ri']), 't.rc=%s' % (255 if t['rc'] is None else t['rc']),
                   't.reqma=%d' % t['reqma'], 't.nc=%d' % t['nc'], 't.cnc=%d' % t['cnc'], 't.ss=%d' % (0 if t['ss'] is None else t['ss'])]
            kvs += ['l.%s=%s' % (x, f(l[x])) for x in ('type', 'ri', 'rc', 'reqma', 'nc', 'cnc', 'ss')]
            lpv = lambda v: '-' if v is None else ('1' if v else '0')
            kvs += ['t.secret=%s' % hx(t['secret'].encode()), 't.addttl=%d' % (t['addttl'] or 0), 't.lp=%s' % ('255' if t['lp'] is None else lpv(t['lp'])),
                    'l.secret=%s' % ('-' if l['secret'] is None else hx(l['secret'].encode())), 'l.addttl=%s' % ('-' if l['addttl'] is None else l['addttl']),
                    'l.lp=%s' % lpv(l['lp'])]
            ops.append('op dynext %s %s' % (hx(('\n'.join(blk) + '\n').encode()), ' '.join(kvs)))
        out.append(('dynext-%d' % k, conf + ops))
    return out


def mppe_multi_cases(rng, n):
    """C03: replies (Accept, Challenge, Reject, Accounting-Response) whose Microsoft vendor attribute carries 1..5
    MS-MPPE-Send/Recv keys -- several of ONE type, mixed with other sub-attributes, in one or several vendor attributes --
    and Accepts with several Tunnel-Passwords: every one of them is re-encrypted for the client"""
    out = []
    for k in range(n):
        cfg = _cfg1(rng)
        ops = []
        now = 1000005
        for i, rcode in enumerate([2, 11, 3, 5, 2]):
            code = 4 if rcode == 5 else 1
            pkt, _ = _req(rng, cfg, 0, code, ident=80 + i, uname=b'bob@example.com')
            ops.append('op cpkt 0 %d %s %s' % (now, pipeline.rnd40(rng), hx(pkt)))
            ops.append('op wpass 0 %d %s' % (now, pipeline.rnd40(rng)))
            nk = 1 + (k + i) % 5
            ty = [16, 17][(k + i) % 2]
            subs = []
            for j in range(nk):
                subs.append((ty if (k % 3) else [16, 17][j % 2], rbytes(rng, 2 + 16 * rng.choice([1, 2, 3]))))
                if rng.random() < 0.3:
                    subs.append((12, b'ab'))
            attrs = ['80:auto'] if rcode != 5 else []
            if k % 4 == 3 and len(subs) > 1:
                h = len(subs) // 2
                attrs.append('26:' + hx(radius.vsa(311, subs[:h])))
                attrs.append('18:' + hx(b'between'))
                attrs.append('26:' + hx(radius.vsa(311, subs[h:])))
            else:
                attrs.append('26:' + hx(radius.vsa(311, subs)))
            if rcode == 2:
                for _ in range(1 + (k % 3)):
                    attrs.append('69:' + hx(bytes([rng.randrange(32)]) + bytes([0x80 | rng.randrange(128), rng.randrange(256)]) + rbytes(rng, 16 * rng.choice([1, 2, 3]))))
            ops.append('op sreply 0 %d %d %s %d - %s' % (i, now, pipeline.rnd40(rng), rcode, ' '.join(attrs)))
        out.append(('mppe-%d' % k, cfg.conf_lines() + cfg.cfg_lines() + ops))
    return out
