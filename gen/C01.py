"""C01: requests reach the routed server intact -- rewrite-engine cases (pipeline cases are added by pipeline.py)"""
from common import *
import rwgen
TRUSTED_BASE = ['model of dorewrite and helpers in coq/Model/Rewrite.v; the regex engine is an oracle: the model is given the answers glibc regexec gave the implementation (logged by the harness)']
ASSUMPTIONS = ['regexec answers are well-formed offsets into the subject']
RULE = 'random rewrite blocks over all rule forms (remove/whitelist, vendor, modify with back-references, supplement, add) parsed by the real configuration parser, applied to attribute lists aimed at the rules; distinct = distinct implementation observation lines'
def generate_core(rng, tier):
    cases = []
    n = 4000 if tier == 'thorough' else 150
    for i in range(n):
        rw = rwgen.random_rw(rng, 'r%d' % i)
        lines = ['conf ' + l for l in rw.conf_lines()] + [rw.cfg_line()]
        for _ in range(12):
            lines.append('op rewrite %s 1 %s' % (rw.name, rwgen.attrs_tokens(rwgen.random_attrs(rng, rw))))
        cases.append(('rw-%d' % i, lines))
    return cases

def generate(rng, tier):
    """the component-level cases, then the clause seen through the whole request/reply pipeline"""
    import pipeline, focus
    return generate_core(rng, tier) + focus.loop_cases(rng, 96 if tier == 'thorough' else 24) + pipeline.guided_cases(rng, 400 if tier == 'thorough' else 30, pipeline.exchange_history, 'xchg')
