"""C03 generators: direct re-encryption of User-Password / Tunnel-Password / MS-MPPE values (pipeline cases come from pipeline.py)"""
from common import *
TRUSTED_BASE = ['model of pwdcrypt/pwdrecrypt/msmpp* in coq/Model/Crypt.v; MD5 is an oracle in Coq (arbitrary function with 16-byte output) and OCaml Digest in the driver',
                'the runtime spec decrypts the implementation output with the RFC cipher of Spec_C03 (extracted), which shares no code with radsecproxy']
ASSUMPTIONS = ['md5 output has 16 bytes']
RULE = ('every ciphertext length 0..253 x secret lengths {1,2,15,16,17,63,64,65,255} incl. binary secrets, with/without salt; '
        'distinct = distinct implementation observation lines')
SECLENS = [1, 2, 15, 16, 17, 63, 64, 65, 255]
def generate_core(rng, tier):
    ops = []
    reps = 6 if tier == 'thorough' else 1
    for _ in range(reps):
        for ln in range(0, 254):
            for sl in (SECLENS if tier == 'thorough' else [rng.choice(SECLENS), rng.choice(SECLENS)]):
                os_, ns = rbytes(rng, sl), rbytes(rng, rng.choice(SECLENS))
                oa, na = rbytes(rng, 16), rbytes(rng, 16)
                v = rbytes(rng, ln)
                if ln > 240 and rng.random() < 0.5:
                    continue
                if rng.random() < 0.5:
                    ops.append('op recrypt pwd %s %s %s %s %s - -' % (hx(v), hx(os_), hx(ns), hx(oa), hx(na)))
                else:
                    ops.append('op recrypt pwd %s %s %s %s %s %s %s' % (hx(v), hx(os_), hx(ns), hx(oa), hx(na), hx(rbytes(rng, 2)), hx(rbytes(rng, 2))))
                ops.append('op recrypt mppe %s %s %s %s %s' % (hx(v), hx(os_), hx(ns), hx(oa), hx(na)))
    rng.shuffle(ops)
    return batch(ops, 'rc', 50)

def generate(rng, tier):
    """the component-level cases, then the clause seen through the whole request/reply pipeline"""
    import pipeline, focus
    return generate_core(rng, tier) + focus.mppe_multi_cases(rng, 120 if tier == 'thorough' else 12) + pipeline.guided_cases(rng, 400 if tier == 'thorough' else 30, pipeline.exchange_history, 'xchg')
