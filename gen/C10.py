"""C10: duplicate detection -- exact retransmissions before/at/after DuplicateInterval, id reuse, late replies"""
from common import *
import pipeline
TRUSTED_BASE = ['model of addclientrq/purgedupcache/removeclientrq/sendreply in coq/Model/Proxy.v; client association = the harness client object (udp.c address/port lookup and its 60 s expiry are not exercised)']
ASSUMPTIONS = ['sequential semantics; the clock is the scripted gettimeofday (whole seconds matter only)']
RULE = 'DuplicateInterval 0,1,2,10,60,255; repeats at interval-1, interval, interval+1 and 0 s; same id with fresh authenticator; replies before and after the repeat; late replies to superseded requests; several clients sharing identifiers'

def dup_history(rng, cfg):
    sh = pipeline.Shadow(cfg)
    ops = []
    now = 1000005
    live = []
    for _ in range(rng.randrange(2, 6)):
        c = rng.randrange(len(cfg.clients))
        dup = cfg.clients[c].dupint if cfg.clients[c].dupint is not None else 10
        code = rng.choice([1, 1, 1, 4, 12])
        ident = rng.choice([0, 1, 7, 255, rng.randrange(256)])
        pkt, info = pipeline.clean_request(rng, cfg, c, code=code, ident=ident, pwdlen=rng.choice([None, 8]))
        ops.append('op cpkt %d %d %s %s' % (c, now, pipeline.rnd40(rng), hx(pkt)))
        t0 = now
        fw = sh.forwarded(c, info) if code != 12 else None
        if fw and rng.random() < 0.8:
            ops.append('op wpass %d %d %s' % (fw[0], now, pipeline.rnd40(rng)))
        answered = False
        steps = rng.randrange(1, 5)
        for _ in range(steps):
            k = rng.random()
            if k < 0.5:
                # exact retransmission relative to the interval boundary
                dt = rng.choice([0, 0, 1, max(dup - 1, 0), dup, dup + 1, dup + 2])
                now = max(now, t0 + dt)
                ops.append('op cpkt %d %d %s %s' % (c, now, pipeline.rnd40(rng), hx(pkt)))
                if now - t0 >= dup:
                    t0 = now
                    fw2 = sh.forwarded(c, info) if code != 12 else None
                    if fw2:
                        if fw: live.append(fw)
                        fw = fw2
            elif k < 0.75 and fw:
                rcode = 5 if code == 4 else rng.choice([2, 3, 11])
                ops.append('op sreply %d %d %d %s %d - 80:auto 18:%s' % (fw[0], fw[1], now, pipeline.rnd40(rng), rcode, hx(b'hello')))
                answered = True
            elif k < 0.9:
                # same identifier, new authenticator: supersedes
                pkt, info = pipeline.clean_request(rng, cfg, c, code=code if code != 12 else 1, ident=ident, uname=info['uname'])
                now += rng.choice([0, 1])
                ops.append('op cpkt %d %d %s %s' % (c, now, pipeline.rnd40(rng), hx(pkt)))
                t0 = now
                if fw: live.append(fw)
                fw = sh.forwarded(c, info)
            else:
                # another client uses the same identifier and authenticator
                c2 = rng.randrange(len(cfg.clients))
                ops.append('op cpkt %d %d %s %s' % (c2, now, pipeline.rnd40(rng), hx(pkt)))
            if rng.random() < 0.3 and live:
                s, i = rng.choice(live)
                ops.append('op sreply %d %d %d %s %d - 80:auto' % (s, i, now, pipeline.rnd40(rng), rng.choice([2, 3, 5])))
            if rng.random() < 0.2:
                ops.append('op drain %d' % c)
        now += rng.choice([0, 1, 3, 12])
    return ops

def generate(rng, tier):
    def mod(rng, cfg):
        for c in cfg.clients:
            c.dupint = rng.choice([None, 0, 1, 2, 10, 60, 255])
            c.secret = cfg.clients[0].secret       # so that one packet is valid from several clients
        for r in cfg.realms:
            if not r.srv:
                r.srv = [0]
            if not r.acc:
                r.acc = list(r.srv)
    n = 1500 if tier == 'thorough' else 80
    return pipeline.guided_cases(rng, n, dup_history, 'dup', cfgmod=mod) + udp_cases(rng, 300 if tier == 'thorough' else 30)

UDP_CONF = ['conf client nasfarm {', 'conf   type udp', 'conf   host 10.0.0.0/24', 'conf   host [2001:db8::]/64', 'conf   secret x', 'conf }',
            'conf server s1 {', 'conf   type udp', 'conf   host 10.1.0.1', 'conf   secret y', 'conf }',
            'conf realm * {', 'conf   server s1', 'conf }', 'cfg nopipe']

def udp_cases(rng, n):
    """datagrams through the real udpserverrd: several sources of one client block, idle gaps around 60 s, retransmissions;
    which client object (duplicate cache) each is attributed to, and the arrival time stamped on the request"""
    out = []
    for k in range(n):
        v6 = (k % 3 == 2)      # every third case: IPv6 sources (same address, different ports are different associations)
        def src_text(a):
            return ('v6-20010db800000000' + '%016x' % a) if v6 else '10.0.0.%d' % a
        srcs = [(rng.randrange(1, 5 if not v6 else 3), rng.choice([1000, 1000, 2000])) for _ in range(rng.randrange(2, 5))]
        t = 1000
        evs = []
        for _ in range(rng.randrange(3, 14)):
            t += rng.choice([0, 0, 1, 1, 5, 30, 59, 60, 61, 100, 200])
            if rng.random() < 0.1:
                notpeer = ('v6-20010db900000000%016x' % rng.randrange(1, 9)) if v6 else '10.9.9.%d' % rng.randrange(1, 9)
                evs.append('%d:%s:%d:%s' % (t, notpeer, 1000, '0101001400000000000000000000000000000000'))   # not a peer
                continue
            a, p = rng.choice(srcs)
            pkt = bytes([1, rng.randrange(256), 0, 20]) + rbytes(rng, 16)
            evs.append('%d:%s:%d:%s' % (t, src_text(a), p, hx(pkt)))
            if rng.random() < 0.4:
                t += rng.choice([0, 1])          # the clock never runs backwards
                evs.append('%d:%s:%d:%s' % (t, src_text(a), p, hx(pkt)))    # retransmission
        out.append(('udp-%d' % k, UDP_CONF + ['op udp ' + ' '.join(evs)]))
    return out
