"""helpers shared by the per-property generators"""
def hx(b):
    b = bytes(b)
    return b.hex() if b else '-'

def batch(ops, prefix, size=200):
    """group independent ops into cases of `size` ops"""
    return [('%s-%d' % (prefix, i // size), ops[i:i + size]) for i in range(0, len(ops), size)]

def rbytes(rng, n):
    return bytes(rng.randrange(256) for _ in range(n))

BOUNDARY_BYTES = [0, 1, 2, 127, 128, 254, 255]
