"""C07: hostile input -- DNS records (all short lengths, mutated length octets), and the malformed streams of the
codec, rewrite, log, certificate and pipeline generators, all under ASan/UBSan"""
from common import *
import importlib
TRUSTED_BASE = ['ASan/UBSan instrumentation (gcc 12) of the real code; libresolv ns_initparse/ns_parserr/ns_name_uncompress for the DNS cases (name expansion answers are an oracle for the model)']
ASSUMPTIONS = ['the DNS message handed to the record parsers was accepted by libresolv; TLS record layer and certificate chain parsing are OpenSSL\'s']
RULE = 'NAPTR/SRV rdata of every length 0..12, valid records with every single length octet replaced by 0/1/255/len-1/len+1, random rdata up to 600 octets; plus the mutated-packet, rewrite, log line, certificate and pipeline cases of C04/C05/C06/C01/C18/C15/C02 with fresh seeds'

def charstr(b):
    return bytes([len(b)]) + b

def dname(labels):
    return b''.join(bytes([len(l)]) + l for l in labels) + b'\0'

def dns_cases(rng, tier):
    out = []
    ops = []
    # every short length, several fillings
    for n in range(0, 13):
        for fill in (0, 1, 255, None):
            rd = bytes([fill] * n) if fill is not None else rbytes(rng, n)
            ops.append('op naptr %s' % hx(rd))
            ops.append('op srv %s' % hx(rd))
    out.append(('dns-short', ['harness hdns'] + ops))
    nvalid = 60 if tier == 'thorough' else 12
    for k in range(nvalid):
        ops = []
        flags = rng.choice([b'S', b'A', b'', b'sU', rbytes(rng, rng.randrange(0, 255))])
        services = rng.choice([b'x-eduroam:radius.tls.tcp', b'', b'aaa+auth:radius.tls.tcp', rbytes(rng, rng.choice([1, 254, 255]))])
        regexp = rng.choice([b'', b'!^.*$!radius.example.org!', rbytes(rng, rng.randrange(0, 40))])
        repl = dname([b'_radsec', b'_tcp', b'example', b'org']) if rng.random() < 0.7 else dname([rbytes(rng, rng.randrange(1, 63)).replace(b'\0', b'a')])
        rec = rbytes(rng, 4) + charstr(flags) + charstr(services) + charstr(regexp) + repl
        ops.append('op naptr %s' % hx(rec))
        # every length octet (positions of the three character strings and of the labels) replaced
        lenpos = [4, 4 + 1 + len(flags), 4 + 2 + len(flags) + len(services), 4 + 3 + len(flags) + len(services) + len(regexp)]
        for p in lenpos:
            for v in (0, 1, 255, rec[p] - 1 if rec[p] else 0, (rec[p] + 1) & 255, 0xc0):
                m = bytearray(rec); m[p] = v
                ops.append('op naptr %s' % hx(bytes(m)))
        for cut in (1, 2, 3, len(repl), len(repl) + 1):
            if cut < len(rec):
                ops.append('op naptr %s' % hx(rec[:-cut]))
        ops.append('op naptr %s' % hx(rec + b'\0'))
        srv = rbytes(rng, 6) + dname([b'radius', b'example', b'org'])
        ops.append('op srv %s' % hx(srv))
        ops.append('op srv %s' % hx(rbytes(rng, 6) + b'\0'))
        for cut in range(1, 8):
            ops.append('op srv %s' % hx(srv[:-cut]))
        m = bytearray(srv); m[6] = 0xc0; ops.append('op srv %s' % hx(bytes(m)))
        m = bytearray(srv); m[6] = 63; ops.append('op srv %s' % hx(bytes(m)))
        out.append(('dns-rec-%d' % k, ['harness hdns'] + ops))
    nrand = 40 if tier == 'thorough' else 6
    for k in range(nrand):
        ops = []
        for _ in range(40):
            rd = rbytes(rng, rng.choice([rng.randrange(0, 30), rng.randrange(0, 600)]))
            ops.append('op %s %s' % (rng.choice(['naptr', 'srv']), hx(rd)))
        out.append(('dns-rnd-%d' % k, ['harness hdns'] + ops))
    return out

def cookie_cases(rng, tier):
    """the DTLS HelloVerify cookie check: every length 0..48 of a prefix of the genuine cookie, longer ones, single-bit
    flips of every octet, cookies issued 0..9 seconds ago"""
    ops = []
    for ln in range(0, 49):
        ops.append('op cookie %d g %d' % (ln, rng.randrange(256)))
    for ln in (64, 100, 255):
        ops.append('op cookie %d g %d' % (ln, rng.randrange(256)))
    for bit in range(0, 320, 8 if tier == 'thorough' else 24):
        ops.append('op cookie 40 f %d' % (bit + rng.randrange(8)))
    for bit in (63, 62, 56, 55, 7, 0, 64, 319):        # the sign bit of the time stamp: a time far in the past, no overflow in the age test
        ops.append('op cookie 40 f %d' % bit)
    for age in range(0, 10):
        ops.append('op cookie 40 o %d' % age)
        ops.append('op cookie %d o %d' % (rng.choice([8, 24, 39, 41]), age))
    return [('cookie', ['harness hcook'] + ops)]

def dynsrv_cases(rng, tier):
    """dynamic discovery through SRV answers: ports 0..65535 incl. every digit count, several records, equal priorities"""
    out = []
    ops = []
    hosts = [b'10.9.8.7', b'192.0.2.1', b'10.1.2.3']
    for port in [0, 1, 9, 10, 99, 100, 999, 1000, 2083, 9999, 10000, 12345, 65535]:
        ops.append('op dynsrv %s %d:0:%d:%s' % (hx(b'bob@dyn.example'), rng.randrange(100), port, hx(rng.choice(hosts))))
    for _ in range(60 if tier == 'thorough' else 10):
        recs = ['%d:%d:%d:%s' % (rng.choice([0, 1, 1, 5, 10, 65535]), rng.randrange(100), rng.choice([1, 1812, 2083, 10000, 65535, rng.randrange(65536)]), hx(rng.choice(hosts)))
                for _ in range(rng.randrange(1, 6))]
        ops.append('op dynsrv %s %s' % (hx(b'bob@dyn.example'), ' '.join(recs)))
    ops.append('op dynsrv %s' % hx(b'bob@dyn.example') + ' ')
    for i, c in enumerate(batch(ops, 'dynsrv', 8)):
        out.append((c[0], ['cfg nopipe'] + c[1]))
    return out

def replycode_cases(rng, tier):
    """a server packet with EVERY code value 0..255: for an identifier with an outstanding request and for one without
    (nothing in such a packet is authenticated before its code is looked at and named in a log line)"""
    import focus, pipeline
    out = []
    codes = list(range(256))
    for k in range(0, 256, 32):
        cfg = focus._cfg1(rng)
        now = 1000005
        ops = []
        pkt, _ = focus._req(rng, cfg, 0, 1, ident=9, uname=b'bob@example.com')
        ops.append('op cpkt 0 %d %s %s' % (now, pipeline.rnd40(rng), hx(pkt)))
        ops.append('op wpass 0 %d %s' % (now, pipeline.rnd40(rng)))
        for code in codes[k:k + 32]:
            for ident, flags in ((7, 'badauth'), (7, '-'), (0, 'badauth')):
                ops.append('op sreply 0 %d %d %s %d %s 18:%s' % (ident, now, pipeline.rnd40(rng), code, flags, hx(b'x')))
        out.append(('rcode-%d' % k, cfg.conf_lines() + cfg.cfg_lines() + ops))
    return out

def generate(rng, tier):
    out = dns_cases(rng, tier) + cookie_cases(rng, tier) + dynsrv_cases(rng, tier) + replycode_cases(rng, tier)
    for name in ('C05', 'C04', 'C06', 'C01', 'C18', 'C15', 'C02', 'C03', 'C16'):
        mod = importlib.import_module(name)
        sub = mod.generate(rng, 'quick' if tier == 'quick' else 'thorough')
        if tier == 'quick':
            sub = sub[:: max(1, len(sub) // 25)]
        elif len(sub) > 600:
            sub = sub[:: len(sub) // 600]
        out += [('%s:%s' % (name, cid), lines) for cid, lines in sub]
    return out
