"""C06: every emitted packet is well-formed and authenticated -- codec-level cases (pipeline cases are added by pipeline.py)"""
from common import *
import codec
TRUSTED_BASE = ['model of radmsg2buf/buf2radmsg/tlv2buf in coq/Model/Packet.v; MD5 oracle (Coq) / OCaml Digest (driver); HMAC-MD5 defined in Gallina per RFC 2104']
ASSUMPTIONS = ['md5 output has 16 bytes', 'messages handed to the serializer have attribute values <= 253 bytes and 16-byte Message-Authenticators (established by the parser and the pipeline stages)']
RULE = 'serialization of random messages over all codes incl. sizes around 4096 and parse of valid/mutated packets; distinct = distinct implementation observation lines'
def generate_core(rng, tier):
    n = 30000 if tier == 'thorough' else 1200
    ops = codec.ser_ops(rng, n) + codec.parse_ops(rng, n // 2)
    return batch(ops, 'ser', 100)

def generate(rng, tier):
    """the component-level cases, then the clause seen through the whole request/reply pipeline"""
    import pipeline, focus
    return generate_core(rng, tier) + focus.peer_type_reply_cases(rng, 80 if tier == 'thorough' else 8) + focus.rwout80_cases(rng, 300 if tier == 'thorough' else 24) + pipeline.guided_cases(rng, 300 if tier == 'thorough' else 20, __import__('C10').dup_history, 'dup') + pipeline.guided_cases(rng, 300 if tier == 'thorough' else 20, pipeline.exchange_history, 'xchg')
