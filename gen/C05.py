"""C05: only authentic, acceptable requests are forwarded or answered -- codec-level cases (handler-level cases are added by pipeline.py)"""
from common import *
import codec
TRUSTED_BASE = ['model of buf2radmsg in coq/Model/Packet.v; MD5 oracle (Coq) / OCaml Digest (driver); HMAC-MD5 defined in Gallina per RFC 2104']
ASSUMPTIONS = ['md5 output has 16 bytes', 'packets handed to the parser have at least 20 bytes (guaranteed by every transport)']
RULE = 'parse of valid and mutated request packets over all codes, Message-Authenticator placements/counts/lengths, truncated/padded/off-by-one length fields; distinct = distinct implementation observation lines'
def generate_core(rng, tier):
    n = 60000 if tier == 'thorough' else 2500
    return batch(codec.parse_ops(rng, n) + codec.interleaved_parse_ops(rng, 600 if tier == 'thorough' else 60), 'parse', 100)

def generate(rng, tier):
    """the component-level cases, then the clause seen through the whole request/reply pipeline"""
    import pipeline, focus
    return generate_core(rng, tier) + focus.ma_policy_cases(rng, 200 if tier == 'thorough' else 16) + focus.eap_fragment_cases(rng, 200 if tier == 'thorough' else 16) + pipeline.cases(rng, 300 if tier == 'thorough' else 20, nops=10)
