"""Pipeline cases: a generated configuration (radsecproxy.conf text for the real parser + abstract
`cfg` lines for the model) and a history of operations through radsrv / replyh / clientwr."""
from common import *
import radius, rwgen

T_UDP, T_TLS, T_TCP, T_DTLS = 0, 1, 2, 3
TYPE_NAME = {0: 'udp', 2: 'tcp'}
STATSRV = {0: 'off', 1: 'on', 2: 'minimal', 3: 'auto'}

class Client:
    def __init__(self, idx, name):
        self.idx, self.name = idx, name
        self.type = T_UDP
        self.secret = b'csecret%d' % idx
        self.dupint = None
        self.addttl = 0
        self.rwin = self.rwout = None
        self.rwuser = None      # (regex, repl)
        self.xtype = None       # transport type given to the parsed block afterwards (T_TLS / T_DTLS): see harness cfg peertype
        self.reqma = self.reqmap = False

class Server:
    def __init__(self, idx, name):
        self.idx, self.name = idx, name
        self.type = T_UDP
        self.secret = b'ssecret%d' % idx
        self.statsrv = 0
        self.retryint = None
        self.retrycount = None
        self.addttl = 0
        self.loopprev = 255
        self.rwin = self.rwout = None
        self.reqma = False
        self.dyn = None           # dynamicLookupCommand: a template for dynamically discovered servers (not in the model)

class Realm:
    def __init__(self, name):
        self.name = name          # 'example.com' | '*' | '/regex/'
        self.msg = None
        self.accresp = False
        self.acclog = False
        self.srv = []
        self.acc = []

class Cfg:
    def __init__(self):
        self.ttlattr = None       # (t0, t1)
        self.addttl = 0
        self.loopprev = False
        self.verifyeap = True
        self.rewrites = []
        self.clients = []
        self.servers = []
        self.realms = []
        self.opts_after = False    # global options written after the blocks

    def ttl(self):
        return self.ttlattr or (27262, 1)

    @staticmethod
    def secret_conf(sec):
        return '%%' + bytes(sec).hex()

    def conf_lines(self):
        opts = []
        if self.ttlattr:
            opts.append('TTLAttribute %s' % (('%d' % self.ttlattr[0]) if self.ttlattr[1] == 256 else '%d:%d' % self.ttlattr))
        if self.addttl:
            opts.append('addTTL %d' % self.addttl)
        if self.loopprev:
            opts.append('LoopPrevention on')
        if not self.verifyeap:
            opts.append('VerifyEAP off')
        l = []
        if not self.opts_after:
            l += opts
        for rw in self.rewrites:
            l += rw.conf_lines()
        for c in self.clients:
            l.append('client %s {' % c.name)
            l.append('  type %s' % TYPE_NAME[c.type])
            l.append('  host 10.0.0.%d' % (c.idx + 1))
            l.append('  secret %s' % self.secret_conf(c.secret))
            if c.dupint is not None:
                l.append('  DuplicateInterval %d' % c.dupint)
            if c.addttl:
                l.append('  addTTL %d' % c.addttl)
            if c.rwin:
                l.append('  rewriteIn %s' % c.rwin.name)
            if c.rwout:
                l.append('  rewriteOut %s' % c.rwout.name)
            if c.rwuser:
                l.append('  rewriteattribute User-Name:/%s/%s/' % c.rwuser)
            if c.reqma:
                l.append('  requireMessageAuthenticator on')
            if c.reqmap:
                l.append('  requireMessageAuthenticatorProxy on')
            l.append('}')
        for s in self.servers:
            l.append('server %s {' % s.name)
            l.append('  type %s' % TYPE_NAME[s.type])
            if not s.dyn:
                l.append('  host 10.1.0.%d' % (s.idx + 1))
            l.append('  secret %s' % self.secret_conf(s.secret))
            if s.dyn:
                l.append('  dynamicLookupCommand %s' % s.dyn)
            l.append('  StatusServer %s' % STATSRV[s.statsrv])
            if s.retryint is not None:
                l.append('  RetryInterval %d' % s.retryint)
            if s.retrycount is not None:
                l.append('  RetryCount %d' % s.retrycount)
            if s.addttl:
                l.append('  addTTL %d' % s.addttl)
            if s.loopprev != 255:
                l.append('  LoopPrevention %s' % ('on' if s.loopprev else 'off'))
            if s.rwin:
                l.append('  rewriteIn %s' % s.rwin.name)
            if s.rwout:
                l.append('  rewriteOut %s' % s.rwout.name)
            if s.reqma:
                l.append('  requireMessageAuthenticator on')
            l.append('}')
        for r in self.realms:
            l.append('realm %s {' % r.name)
            for i in r.srv:
                l.append('  server %s' % self.servers[i].name)
            for i in r.acc:
                l.append('  accountingServer %s' % self.servers[i].name)
            if r.msg is not None:
                l.append('  replyMessage "%s"' % r.msg.decode('latin-1'))
            if r.accresp:
                l.append('  accountingResponse on')
            if r.acclog:
                l.append('  accountingLog on')
            l.append('}')
        if self.opts_after:
            l += opts
        return ['conf ' + x for x in l]

    def retry_defaults(self, s):
        if s.type == T_UDP:
            return (s.retryint if s.retryint is not None else 5, s.retrycount if s.retrycount is not None else 2)
        return (s.retryint if s.retryint is not None else 10, s.retrycount if s.retrycount is not None else 0)

    def cfg_lines(self):
        l = [rw.cfg_line() for rw in self.rewrites]
        t0, t1 = self.ttl()
        l.append('cfg options ttl0=%d ttl1=%d addttl=%d loopprev=%d verifyeap=%d' % (t0, t1, self.addttl, self.loopprev, self.verifyeap))
        for c in self.clients:
            l.append('cfg client %d name=%s type=%d secret=%s dupint=%d addttl=%d rwin=%s rwout=%s rwuser=%s reqma=%d reqmap=%d' % (
                c.idx, hx(c.name.encode()), c.type if c.xtype is None else c.xtype, hx(c.secret), 10 if c.dupint is None else c.dupint, c.addttl,
                c.rwin.name if c.rwin else '-', c.rwout.name if c.rwout else '-',
                hx(c.rwuser[1].encode('latin-1')) if c.rwuser else '-', c.reqma, c.reqmap))
        for c in self.clients:
            if c.xtype is not None:
                l.append('cfg peertype cl %d %d' % (c.idx, c.xtype))
        for s in self.servers:
            if s.dyn:
                continue
            ri, rc = self.retry_defaults(s)
            l.append('cfg server %d name=%s type=%d secret=%s statsrv=%d retryint=%d retrycount=%d addttl=%d loopprev=%d rwin=%s rwout=%s reqma=%d' % (
                s.idx, hx(s.name.encode()), s.type, hx(s.secret), s.statsrv, ri, rc, s.addttl, s.loopprev,
                s.rwin.name if s.rwin else '-', s.rwout.name if s.rwout else '-', s.reqma))
        for k, r in enumerate(self.realms):
            l.append('cfg realm %d msg=%s accresp=%d srv=%s acc=%s' % (
                k, hx(r.msg) if r.msg is not None else '-', r.accresp,
                ','.join(str(i) for i in r.srv if not self.servers[i].dyn) or '-', ','.join(str(i) for i in r.acc if not self.servers[i].dyn) or '-'))
        return l

REALM_NAMES = ['example.com', 'b.example.com', 'other.org', 'x-y.example.net']

def random_cfg(rng, rich=True):
    cfg = Cfg()
    if rng.random() < 0.5:
        cfg.ttlattr = rng.choice([(27262, 1), (5, 256), (200, 256), (311, 7), (9, 255)])
    cfg.addttl = rng.choice([0, 0, 1, 5, 255])
    cfg.loopprev = rng.random() < 0.3
    cfg.verifyeap = rng.random() < 0.8
    cfg.opts_after = rng.random() < 0.5
    nrw = rng.randrange(0, 4) if rich else 0
    for i in range(nrw):
        cfg.rewrites.append(rwgen.random_rw(rng, 'rw%d' % i))
    names = ['peerA', 'peerB', 'peerC', 'peerD']
    for i in range(rng.randrange(1, 4)):
        c = Client(i, names[i])
        c.type = rng.choice([T_UDP, T_UDP, T_TCP])
        if rng.random() < 0.15:
            c.xtype = rng.choice([T_TLS, T_DTLS])
        c.secret = rbytes(rng, rng.choice([1, 7, 16, 17, 64, 65, 100, 256, 300])) if rng.random() < 0.5 else c.secret
        if rng.random() < 0.12:
            c.secret = b'Xy\x00' + rbytes(rng, 6)        # an escaped NUL octet is a legal part of a secret
        c.dupint = rng.choice([None, None, 0, 1, 2, 10, 255])
        c.addttl = rng.choice([0, 0, 0, 3, 255])
        if cfg.rewrites and rng.random() < 0.4:
            c.rwin = rng.choice(cfg.rewrites)
        if cfg.rewrites and rng.random() < 0.4:
            c.rwout = rng.choice(cfg.rewrites)
        if rng.random() < 0.3:
            c.rwuser = rng.choice([(r'^(.*)@local$', r'\1@example.com'), (r'^([^@]*)$', r'\1@example.com'), (r'^(.*)@(.*)$', r'\1@\2'), (r'@b\.', '@'),
                                   (r'^(.*)@example\.com$', r'\1@example.com'), (r'^(.*)@other\.org$', r'\1@other.org')])
        c.reqma = rng.random() < 0.2
        c.reqmap = rng.random() < 0.2
        cfg.clients.append(c)
    snames = ['peerA', 'srvX', 'srvY', 'peerb']
    for i in range(rng.randrange(1, 4)):
        s = Server(i, snames[i])
        s.type = rng.choice([T_UDP, T_UDP, T_TCP])
        s.secret = rbytes(rng, rng.choice([1, 7, 16, 17, 64, 65, 100, 256, 300])) if rng.random() < 0.5 else s.secret
        if rng.random() < 0.12:
            s.secret = b'Xy\x00' + rbytes(rng, 6)
        s.statsrv = rng.choice([0, 0, 1, 2, 3])
        if s.type == T_UDP:
            s.retryint = rng.choice([None, 1, 2, 5, 60])
            s.retrycount = rng.choice([None, 0, 1, 3, 10])
        else:
            s.retryint = rng.choice([None, 1, 5])
        s.addttl = rng.choice([0, 0, 0, 2, 255])
        s.loopprev = rng.choice([255, 255, 0, 1])
        if cfg.rewrites and rng.random() < 0.4:
            s.rwin = rng.choice(cfg.rewrites)
        if cfg.rewrites and rng.random() < 0.4:
            s.rwout = rng.choice(cfg.rewrites)
        s.reqma = rng.random() < 0.2
        cfg.servers.append(s)
    ns = len(cfg.servers)
    for nm in rng.sample(REALM_NAMES, rng.randrange(1, 3)) + (['*'] if rng.random() < 0.6 else []) + ([r'/@r[0-9]+\.test$'] if rng.random() < 0.3 else []):
        r = Realm(nm)
        r.srv = rng.sample(range(ns), rng.randrange(0, ns + 1))
        r.acc = rng.sample(range(ns), rng.randrange(0, ns + 1)) if rng.random() < 0.5 else []
        r.msg = rng.choice([None, b'no-route', b'x' * 253]) if rng.random() < 0.6 else None
        r.acclog = rng.random() < 0.4
        r.accresp = rng.random() < 0.5
        cfg.realms.append(r)
    rng.shuffle(cfg.realms)
    return cfg

def username(rng, cfg):
    realms = [r.name for r in cfg.realms if not r.name.startswith('/') and r.name != '*'] or ['example.com']
    k = rng.random()
    user = rng.choice(['bob', 'alice', 'a.b', 'x', ''])
    rn = rng.choice(realms)
    if k < 0.55:
        return ('%s@%s' % (user, rn)).encode()
    if k < 0.62:
        return ('%s@%s' % (user, rn.upper())).encode()
    if k < 0.68:
        return ('%s@sub.%s' % (user, rn)).encode()
    if k < 0.74:
        return ('%s@%sx' % (user, rn)).encode()
    if k < 0.8:
        return ('%s@r%d.test' % (user, rng.randrange(100))).encode()
    if k < 0.85:
        return user.encode()
    if k < 0.9:
        return ('%s@local' % user).encode()
    if k < 0.94:
        return ('%s@%s' % (user, rn.replace('.', '-'))).encode()
    return b''

def request_packet(rng, cfg, c, code=None, ident=None, auth=None, uname=None, extra=None, valid=True):
    """returns (packet, info)"""
    cl = cfg.clients[c]
    code = code if code is not None else rng.choice([1, 1, 1, 1, 4, 4, 12, 40, 43, 2, 5, rng.randrange(256)])
    ident = rng.randrange(256) if ident is None else ident
    auth = rbytes(rng, 16) if auth is None else auth
    attrs = []
    if uname is None:
        uname = username(rng, cfg)
    if rng.random() < 0.93:
        attrs.append((1, uname))
    if code == 1:
        r = rng.random()
        if r < 0.45:
            pw = rbytes(rng, rng.choice([1, 8, 16, 17, 32, 100, 128]))
            ct = radius.pwd_encrypt(pw, cl.secret, auth)
            if rng.random() < 0.1:
                ct = ct[:-1] if rng.random() < 0.5 else ct + b'\0'
            attrs.append((2, ct))
        elif r < 0.6:
            attrs.append((3, rbytes(rng, 17)))
            if rng.random() < 0.4:
                attrs.append((60, rbytes(rng, rng.choice([16, 24]))))
        elif r < 0.8:
            # EAP-Message(s): valid or not
            total = rng.choice([4, 5, 30, 253, 300])
            eap = bytearray(rbytes(rng, total))
            ln = total if rng.random() < 0.8 else total + rng.choice([-1, 1, 7])
            eap[2], eap[3] = (ln >> 8) & 255, ln & 255
            chunks = [bytes(eap[i:i + 253]) for i in range(0, total, 253)]
            if rng.random() < 0.1:
                chunks.insert(rng.randrange(len(chunks) + 1), b'')
            for ch in chunks:
                attrs.append((79, ch))
    t0, t1 = cfg.ttl()
    if rng.random() < 0.35:
        val = bytes(rng.choice([0, 0, 1, 2, 255]) for _ in range(rng.choice([0, 1, 2, 4, 4])))
        if t1 == 256:
            attrs.insert(rng.randrange(len(attrs) + 1), (t0 & 255, val))
        else:
            subs = [(rng.choice([2, 3]), rbytes(rng, 2))] * rng.randrange(0, 2) + [(t1, val)] + [(9, b'z')] * rng.randrange(0, 2)
            attrs.insert(rng.randrange(len(attrs) + 1), (26, radius.vsa(t0, subs)))
    if rng.random() < 0.3:
        attrs.append((33, rbytes(rng, rng.choice([1, 8]))))
    if rng.random() < 0.2:
        attrs.append((33, rbytes(rng, 4)))
    attrs += rwgen.random_attrs(rng, cl.rwin, maxn=3)
    if extra:
        attrs += extra
    ma = rng.random()
    if ma < 0.5:
        attrs.insert(rng.randrange(len(attrs) + 1), (80, None))
    elif ma < 0.56:
        attrs.insert(rng.randrange(len(attrs) + 1), (80, rbytes(rng, 16)))
    # keep the packet within bounds
    while 20 + sum(2 + len(v if v is not None else b'0' * 16) for t, v in attrs) > 4096:
        attrs.pop()
    pkt = radius.build(code, ident, auth, attrs, cl.secret)
    if not valid:
        import codec
        pkt = codec.mutate(rng, pkt)
    return pkt, dict(code=code, id=ident, auth=auth, uname=uname)

def reply_attrs(rng, cfg, s):
    attrs = []
    if rng.random() < 0.5:
        attrs.append('80:auto')
    if rng.random() < 0.4:
        attrs.append('18:' + hx(rwgen.text_value(rng, rng.choice([0, 3, 40]))))
    if rng.random() < 0.3:
        attrs.append('1:' + hx(rng.choice([b'bob@example.com', b'someone-else-with-a-long-name@example.org', b''])))
    if rng.random() < 0.4:
        # MS-MPPE keys: salt + key of valid/invalid length
        subs = []
        for st in rng.sample([16, 17, 16, 12], rng.randrange(1, 3)):
            ln = rng.choice([18, 34, 34, 50, 17, 19, 33, 2, 242])
            subs.append((st, rbytes(rng, ln)))
        b = radius.vsa(311, subs)
        if len(b) <= 253:
            attrs.insert(rng.randrange(len(attrs) + 1), '26:' + hx(b))
    if rng.random() < 0.3:
        for _ in range(rng.randrange(1, 3)):
            ln = rng.choice([3 + 16, 3 + 32, 3 + 15, 2, 3 + 128, 3 + 144])
            attrs.append('69:' + hx(rbytes(rng, ln)))
    if rng.random() < 0.2:
        attrs.append('26:' + hx(rbytes(rng, rng.choice([0, 3, 4, 5]))))
    t0, t1 = cfg.ttl()
    if rng.random() < 0.3:
        val = bytes(rng.choice([0, 0, 1, 2, 255]) for _ in range(rng.choice([0, 1, 2, 4])))
        if t1 == 256:
            attrs.append('%d:%s' % (t0 & 255, hx(val)))
        else:
            attrs.append('26:' + hx(radius.vsa(t0, [(t1, val)])))
    for t, v in rwgen.random_attrs(rng, cfg.servers[s].rwin, maxn=2):
        attrs.append('%d:%s' % (t, hx(v)))
    return attrs

def history(rng, cfg, nops=14):
    ops = []
    now = 1000000 + rng.randrange(1, 50)
    sent = []          # (client, packet, info)
    nc, ns = len(cfg.clients), len(cfg.servers)
    for _ in range(nops):
        k = rng.random()
        rnd = hx(rbytes(rng, 40))
        if k < 0.4 or not sent:
            c = rng.randrange(nc)
            pkt, info = request_packet(rng, cfg, c, valid=rng.random() < 0.9)
            ops.append('op cpkt %d %d %s %s' % (c, now, rnd, hx(pkt)))
            sent.append((c, pkt, info))
        elif k < 0.5:
            # retransmission / id reuse with another authenticator
            c, pkt, info = rng.choice(sent)
            if rng.random() < 0.6:
                ops.append('op cpkt %d %d %s %s' % (c, now, rnd, hx(pkt)))
            else:
                pkt2, info2 = request_packet(rng, cfg, c, code=info['code'] if info['code'] in (1, 4) else 1, ident=info['id'], uname=info['uname'])
                ops.append('op cpkt %d %d %s %s' % (c, now, rnd, hx(pkt2)))
                sent.append((c, pkt2, info2))
        elif k < 0.7:
            s = rng.randrange(ns)
            ops.append('op wpass %d %d %s%s' % (s, now, rnd, ' putfail' if rng.random() < 0.05 else ''))
        elif k < 0.92:
            s = rng.randrange(ns)
            ident = rng.choice([0, 1, 1, 2, 3, 255, rng.randrange(256)])
            code = rng.choice([2, 2, 3, 11, 5, 5, 1, 12, rng.choice([0, 6, 13, 14, 20, 39, 40, 41, 44, 46, 255, rng.randrange(256)])])
            flags = rng.choice(['-', '-', '-', '-', 'badauth', 'badma', 'wrongsecret', 'prefixsecret'])
            ops.append('op sreply %d %d %d %s %d %s %s' % (s, ident, now, rnd, code, flags, ' '.join(reply_attrs(rng, cfg, s))))
        elif k < 0.95:
            ops.append('op drain %d' % rng.randrange(nc))
        elif k < 0.97:
            ops.append('op reconnect %d' % rng.randrange(ns))
        else:
            ops.append('op srvset %d %d %d' % (rng.randrange(ns), rng.randrange(5), rng.choice([0, 1, 5, 16])))
        now += rng.choice([0, 0, 1, 1, 2, 5, 9, 10, 11, 26, 60])
    return ops

def cases(rng, n, nops=14, prefix='pipe', rich=True):
    out = []
    for i in range(n):
        cfg = random_cfg(rng, rich)
        lines = cfg.conf_lines() + cfg.cfg_lines() + history(rng, cfg, nops)
        out.append(('%s-%d' % (prefix, i), lines))
    return out

# ------------------------------------------------------------------------------------------------
# guided histories: a light shadow of the proxy predicts (server, identifier) of forwarded requests
# so that replies, duplicates, retries and table-full situations are hit with high probability.
class Shadow:
    def __init__(self, cfg):
        self.cfg = cfg
        self.nextid = {}
        self.out = {}      # (server, id) -> (client, info)
        for s in cfg.servers:
            self.nextid[s.idx] = 1 if s.statsrv != 0 else 0

    def route(self, uname, acct):
        """index of the realm/server a User-Name is expected to go to (all servers connected, no losses)"""
        u = uname.decode('latin-1')
        for r in self.cfg.realms:
            nm = r.name
            hit = False
            if nm == '*':
                hit = True
            elif nm.startswith('/'):
                import re
                hit = re.search(nm.strip('/'), u, re.I) is not None
            else:
                hit = u.lower().endswith('@' + nm.lower())
            if hit:
                lst = r.acc if acct else r.srv
                return (r, lst[0] if lst else None)
        return (None, None)

    def forwarded(self, c, info):
        cl = self.cfg.clients[c]
        uname = info['uname']
        if cl.rwuser:
            import re
            rx, rp = cl.rwuser
            m = re.search(rx, uname.decode('latin-1'), re.I)
            if m:
                rep = re.sub(r'\\(\d)', lambda g: m.group(int(g.group(1))) or '', rp)
                uname = rep.encode('latin-1')
        r, s = self.route(uname, info['code'] == 4)
        if s is None:
            return None
        i = self.nextid[s]
        if i > 255:
            i = 1 if self.cfg.servers[s].statsrv != 0 else 0
        self.nextid[s] = i + 1
        self.out[(s, i)] = (c, info)
        return (s, i)

def routable_name(rng, cfg, acct=False):
    names = []
    for r in cfg.realms:
        lst = r.acc if acct else r.srv
        if lst and not r.name.startswith('/') and r.name != '*':
            names.append(r.name)
    if names:
        nm = rng.choice(names)
        if rng.random() < 0.25:
            nm = rng.choice([nm.upper(), nm.capitalize(), nm[:1].upper() + nm[1:]])
        return ('%s@%s' % (rng.choice(['bob', 'alice', 'x']), nm)).encode()
    return b'bob@example.com'

def clean_request(rng, cfg, c, code=1, ident=None, auth=None, uname=None, pwdlen=None, chap=False, extra=None, ma=True):
    cl = cfg.clients[c]
    ident = rng.randrange(256) if ident is None else ident
    auth = rbytes(rng, 16) if auth is None else auth
    uname = routable_name(rng, cfg, code == 4) if uname is None else uname
    attrs = [(1, uname)]
    if code == 1 and pwdlen:
        attrs.append((2, radius.pwd_encrypt(rbytes(rng, pwdlen), cl.secret, auth)))
    if code == 1 and chap:
        attrs.append((3, rbytes(rng, 17)))
    attrs += [(4, bytes([10, 0, 0, 9])), (31, b'00-11-22-33-44-55'), (33, rbytes(rng, 4))]
    if extra:
        attrs += extra
    if ma and code != 4:       # radsecproxy verifies a Message-Authenticator over the packet as received: an accounting request built here with one would not verify
        attrs.insert(rng.randrange(len(attrs) + 1), (80, None))
    pkt = radius.build(code, ident, auth, attrs, cl.secret)
    return pkt, dict(code=code, id=ident, auth=auth, uname=uname)

def rnd40(rng):
    return hx(rbytes(rng, 40))

def exchange_history(rng, cfg, n=4):
    """request -> transmit -> (rich) reply -> drain, several times, with retransmissions of answered requests"""
    sh = Shadow(cfg)
    ops = []
    now = 1000005
    for _ in range(n):
        c = rng.randrange(len(cfg.clients))
        code = rng.choice([1, 1, 1, 4])
        pkt, info = clean_request(rng, cfg, c, code=code, pwdlen=rng.choice([None, 5, 16, 17, 40, 128]), chap=rng.random() < 0.3)
        ops.append('op cpkt %d %d %s %s' % (c, now, rnd40(rng), hx(pkt)))
        fw = sh.forwarded(c, info)
        for s in range(len(cfg.servers)):
            ops.append('op wpass %d %d %s' % (s, now, rnd40(rng)))
        now += rng.choice([0, 1, 2])
        if fw:
            s, i = fw
            attrs = []
            rcode = 5 if code == 4 else rng.choice([2, 2, 2, 3, 11])
            if rng.random() < 0.8:
                attrs.append('80:auto')
            r = rng.random()
            if r < 0.5:
                # MS-MPPE keys: separate attributes or both in one
                k1 = rbytes(rng, 2 + 16 * rng.choice([1, 2, 3]))
                k2 = rbytes(rng, 2 + 16 * rng.choice([1, 2]))
                if rng.random() < 0.25:
                    k3 = rbytes(rng, 2 + 16)
                    attrs.append('26:' + hx(radius.vsa(311, rng.choice([[(16, k1), (16, k2), (16, k3)], [(17, k1), (16, k2), (17, k3), (12, b'ab'), (17, k2)], [(16, k3), (17, k3), (17, k1), (17, k2), (16, k1)]]))))
                elif rng.random() < 0.5:
                    attrs.append('26:' + hx(radius.vsa(311, [(16, k1), (17, k2)] if rng.random() < 0.5 else [(17, k2), (12, b'ab'), (16, k1)])))
                else:
                    attrs.append('26:' + hx(radius.vsa(311, [(16, k1)])))
                    attrs.append('26:' + hx(radius.vsa(311, [(17, k2)])))
            if r > 0.3 and rcode == 2:
                for _ in range(rng.randrange(1, 3)):
                    attrs.append('69:' + hx(bytes([rng.randrange(32)]) + bytes([0x80 | rng.randrange(128), rng.randrange(256)]) + rbytes(rng, 16 * rng.choice([1, 2, 3, 8]))))
            if rng.random() < 0.5:
                attrs.append('1:' + hx(rng.choice([info['uname'], b'bob', b'a-much-longer-inner-identity@example.org', info['uname'] + b'.x'])))
            if rng.random() < 0.3:
                attrs.append('18:' + hx(b'welcome'))
            attrs += ['%d:%s' % (t, hx(v)) for t, v in rwgen.random_attrs(rng, cfg.servers[s].rwin, maxn=2)]
            flags = rng.choice(['-'] * 6 + ['badauth', 'badma', 'wrongsecret', 'prefixsecret'])
            tgt = (s, i)
            if rng.random() < 0.08:
                tgt = (s, (i + 1) % 256)
            ops.append('op sreply %d %d %d %s %d %s %s' % (tgt[0], tgt[1], now, rnd40(rng), rcode, flags, ' '.join(attrs)))
            if flags != '-' and rng.random() < 0.7:
                ops.append('op sreply %d %d %d %s %d - %s' % (s, i, now, rnd40(rng), rcode, ' '.join(attrs)))
            if rng.random() < 0.4:
                # retransmission of the (now answered) request, inside / at / after the duplicate interval
                dup = cfg.clients[c].dupint if cfg.clients[c].dupint is not None else 10
                dt = rng.choice([0, max(dup - 1, 0), dup, dup + 1])
                ops.append('op cpkt %d %d %s %s' % (c, now + dt, rnd40(rng), hx(pkt)))
                now += dt
                sh.forwarded(c, info) if dt >= dup else None
            if rng.random() < 0.5:
                ops.append('op drain %d' % c)
        now += rng.choice([0, 1, 3])
    return ops

def guided_cases(rng, n, maker, prefix, rich=True, cfgmod=None):
    out = []
    for i in range(n):
        cfg = random_cfg(rng, rich)
        if cfgmod:
            cfgmod(rng, cfg)
        lines = cfg.conf_lines() + cfg.cfg_lines() + maker(rng, cfg)
        out.append(('%s-%d' % (prefix, i), lines))
    return out
